#!/usr/bin/env python3
"""Regenerate MANIFEST.json from the table below (kept valid at all times)."""
import json, os
HERE = os.path.dirname(os.path.dirname(os.path.abspath(__file__)))
ALL = [f"C{i:02d}" for i in range(1, 21)]
CHECKS = {}
def chk(pid, engine, category, text, note, technique, design_ref):
    CHECKS[pid] = dict(property_id=pid, quick_cmd=f"./vcheck {pid} --tier quick",
        thorough_cmd=f"./vcheck {pid} --tier thorough", evidence_file=f"evidence/{pid}.json",
        replay_cmd_template="./vcheck replay {path}", engine=engine,
        level_claimed=dict(category=category, text=text, design_ref=design_ref),
        level_note=note, technique=technique)

exec(open(os.path.join(HERE, "tools", "manifest_table.py")).read())

man = {
 "version": 1,
 "setup_cmd": "./vcheck setup",
 "hooks": {"guard": "SIGNAC_VERIF", "enable": "no source hooks: signac is pure Python and is imported from /repo's working tree by every check (PYTHONPATH=/repo); instrumentation is external (LD_PRELOAD libc shim, harness-side replacement of uuid4 / listdir / ThreadPool and, inside the forked engine-T children only, of the RLock / Lock objects and factories of signac and synced_collections modules)",
           "baseline_off_cmd": "cd /repo && /venv/bin/python -m pytest -ra -q -p no:cacheprovider --timeout=900 --continue-on-collection-errors",
           "source_commits": [], "add_only": True},
 "engines": ENGINES,
 "checks": [CHECKS[p] for p in ALL if p in CHECKS],
 "not_applicable": [{"property_id": p, "reason": NOT_APPLICABLE.get(p, "check not built yet in this round; see DESIGN.md section 6 for the planned bounded-exhaustive formulation")} for p in ALL if p not in CHECKS],
 "notes": NOTES,
}
json.dump(man, open(os.path.join(HERE, "MANIFEST.json"), "w"), indent=1)
print("claimed:", [p for p in ALL if p in CHECKS])
