#!/bin/bash
# tools/validate_seed.sh <worktree> <seed-dir>: confirm (a) patch applies, (b) 310 tests pass with it,
# (c) demo fails with it and passes without.  Prints one RESULT line.
wt="$1"; sd="$2"
cd "$wt" || exit 2
git checkout -q -- signac 2>/dev/null
if ! git apply --check "$sd/patch.diff" 2>/dev/null; then echo "RESULT $sd: PATCH-DOES-NOT-APPLY"; exit 1; fi
scr=$(mktemp -d /dev/shm/seedval.XXXX)
( cd "$scr" && PYTHONPATH="$wt" timeout 600 /venv/bin/python "$sd/demo.py" >"$scr/clean.out" 2>&1 ); rc_clean=$?
git apply "$sd/patch.diff"
( cd "$scr" && PYTHONPATH="$wt" timeout 600 /venv/bin/python "$sd/demo.py" >"$scr/mut.out" 2>&1 ); rc_mut=$?
tests=$(PYTHONPATH="$wt" /venv/bin/python -m pytest -q -p no:cacheprovider --timeout=900 --continue-on-collection-errors 2>&1 | tail -1)
git checkout -q -- signac
rm -rf "$scr"
echo "RESULT $sd: demo_clean=$rc_clean demo_mutant=$rc_mut tests='$tests'"
