#!/bin/bash
# tools/benign.sh <dir with *.diff> <worktree> <checks...>: apply each behaviour-preserving patch to the scratch worktree,
# run the checks against it (VCHECK_REPO), revert.  Every line must say rc=0.
dir=$1; wt=$2; shift 2
cd /verif
for f in $dir/*.diff; do
  id=$(basename $f .diff)
  git -C $wt checkout -q -- . ; 
  if ! git -C $wt apply --check $f 2>/dev/null; then echo "$id: PATCH DOES NOT APPLY"; continue; fi
  git -C $wt apply $f
  for c in "$@"; do
    out=$(VCHECK_REPO=$wt ./vcheck $c 2>&1); rc=$?
    kinds=$(echo "$out" | grep -E "unlisted signature|HARNESS-ERROR" | head -2 | sed 's/.*unlisted signature //' | tr '\n' ' ' | cut -c1-260)
    echo "$id $c rc=$rc $kinds"
  done
  git -C $wt checkout -q -- .
done
