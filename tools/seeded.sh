#!/bin/bash
# tools/seeded.sh [seed-id...]: apply each seeded mutant (/verif/seeded/<id>/patch.diff) to /repo, run the checks named
# in its meta.json (quick tier), revert.  One line per (mutant, check).
cd /verif
ids="${@:-$(ls seeded)}"
for id in $ids; do
  d=/verif/seeded/$id
  checks=$(/venv/bin/python -c "import json;print(' '.join(json.load(open('$d/meta.json'))['checks']))")
  if ! git -C /repo apply --check $d/patch.diff 2>/dev/null; then echo "$id: PATCH DOES NOT APPLY"; continue; fi
  git -C /repo apply $d/patch.diff
  for c in $checks; do
    out=$(./vcheck $c 2>&1); rc=$?
    kinds=$(echo "$out" | grep "unlisted signature" | head -2 | sed 's/.*unlisted signature //' | tr '\n' ' ' | cut -c1-160)
    echo "$id $c rc=$rc $kinds"
  done
  git -C /repo checkout -- .
done
git -C /repo status --short | head -3
