#!/bin/bash
# tools/seeded.sh [seed-id...]: apply each seeded mutant (/verif/seeded/<id>/patch.diff) to /repo, run the checks recorded
# as catching it in its meta.json (quick tier) until one reports rc=1, revert.  One line per (mutant, check); a final
# "MISSED <id>" line for every mutant that no check reported.
cd /verif
ids="${@:-$(ls seeded)}"
for id in $ids; do
  d=/verif/seeded/$id
  checks=$(/venv/bin/python -c "import json;m=json.load(open('$d/meta.json'));print(' '.join(m.get('caught_by') or m.get('checks_run') or m['checks']))")
  if grep -q not_portable $d/meta.json; then echo "$id: kept against its own base (see meta.json)"; continue; fi
  if ! git -C /repo apply --check $d/patch.diff 2>/dev/null; then echo "$id: PATCH DOES NOT APPLY"; continue; fi
  git -C /repo apply $d/patch.diff
  hit=0
  for c in $checks; do
    out=$(./vcheck $c 2>&1); rc=$?
    kinds=$(echo "$out" | grep "unlisted signature" | head -2 | sed 's/.*unlisted signature //' | tr '\n' ' ' | cut -c1-160)
    echo "$id $c rc=$rc $kinds"
    if [ $rc = 1 ]; then hit=1; break; fi
  done
  [ $hit = 0 ] && echo "MISSED $id"
  git -C /repo checkout -- .
done
git -C /repo status --short | head -3
