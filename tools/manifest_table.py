NOTES = "See DESIGN.md. Every check explores the real implementation imported from /repo; exit 0/1/2 = held / VIOLATION / HARNESS-ERROR."
NOT_APPLICABLE = {}
ENGINES = [
 {"name": "engine-I", "path": "vlib/engine_i.py", "serves_properties": ["C01"], "kind_free_text": "bounded-exhaustive enumeration of a finite input universe against an independent reference, sharded over 16 forked workers"},
]
chk("C01", "engine-I", "exploration",
    "Every state point of a completed small-scope universe (full atom product over flat mappings; every container shape up to the node bound with a focus leaf over all 18 atoms) in every key order / list-tuple / dict-OrderedDict-synced spelling hashes to md5 of an independently written canonical JSON; ids are injective on typed-different values; init/reopen round trip and three interpreter sessions agree.",
    "Trusted: vlib/canon.py (canonical JSON written from the JSON grammar), hashlib.md5. Values outside the alphabet (other floats, longer strings, depth > 3) are not covered.",
    "bounded-exhaustive input enumeration (small-scope model checking of a pure function) against a reference implementation", "DESIGN.md section 6 C01")
