NOTES = "See DESIGN.md. Every check explores the real implementation imported from /repo; exit 0/1/2 = held / VIOLATION / HARNESS-ERROR."
NOT_APPLICABLE = {}
ENGINES = [
 {"name": "engine-I", "path": "vlib/engine_i.py", "serves_properties": ["C01"], "kind_free_text": "bounded-exhaustive enumeration of a finite input universe against an independent reference, sharded over 16 forked workers"},
]
chk("C01", "engine-I", "exploration",
    "Every state point of a completed small-scope universe (full atom product over flat mappings; every container shape up to the node bound with a focus leaf over all 18 atoms) in every key order / list-tuple / dict-OrderedDict-synced spelling hashes to md5 of an independently written canonical JSON; ids are injective on typed-different values; init/reopen round trip and three interpreter sessions agree.",
    "Trusted: vlib/canon.py (canonical JSON written from the JSON grammar), hashlib.md5. Values outside the alphabet (other floats, longer strings, depth > 3) are not covered.",
    "bounded-exhaustive input enumeration (small-scope model checking of a pure function) against a reference implementation", "DESIGN.md section 6 C01")
ENGINES[0]["serves_properties"] = ["C01", "C06", "C18"]
chk("C06", "engine-I", "exploration",
    "Every filter of the documented grammar up to depth 3 (all atoms: 4 key paths x 13 operators x ~12 arguments; all depth-2 combinations of a 30-atom set; all depth-3 structures of an 8-atom set) is run on every 1-job and every ordered 2-job corpus of a colliding value universe at the _SearchIndexer seam, and through Project.find_jobs on 15 on-disk corpora; results must equal a per-job reference evaluator, the set algebra of $not/$and/$or on the implementation's own results, and the 1-job-corpus verdict of each job (locality).",
    "Trusted: vlib/refmodels/query.py (per-job evaluator, Python == equality). Corpora above 2 jobs (3 in thorough for colliding values) at the seam and values outside the universe are not covered; ill-typed ordering pairs are skipped and counted.",
    "bounded-exhaustive enumeration of (filter, corpus) pairs against a reference model + differential set-algebra/locality oracles", "DESIGN.md section 6 C06")
chk("C18", "engine-I", "exploration",
    "detect_schema (x exclude_const x every sub-selection given as ids and as Job objects) and diff_jobs (every sub-selection, every order) on every corpus of <=4 (quick) / <=5 (thorough) jobs from a 16-state-point universe built to collide (1/1.0/True/'1', -2/-2.0, scalar-vs-mapping key, partial keys) must equal reference summaries computed from the flattened state points.",
    "Trusted: reference schema/diff in vlib/checks/c18.py, canon.tagged for type-exact value identity. Corpora above the bound and empty-mapping values are not covered.",
    "bounded-exhaustive corpus enumeration against a reference model", "DESIGN.md section 6 C18")
ENGINES[0]["serves_properties"] = ["C01", "C06", "C09", "C18"]
ENGINES.append({"name": "engine-H", "path": "vlib/engine_h.py", "serves_properties": ["C08"], "kind_free_text": "explicit-state breadth-first search over histories of real API calls with canonical-state de-duplication; every transition is executed on the real implementation (fresh world, history replayed) in lock step with a reference model"})
chk("C09", "engine-I", "fault_enumeration",
    "For 6 state point shapes every truncation offset, every (offset, 16 replacement bytes) pair, deletion, 9 replacement documents, swaps and directory renames of the state point file, and every assignment of 9 damage classes to 3 jobs under both directory listing orders, each with and without a persistent cache: check() must name exactly the independently classified damaged directories, opening by id must raise or return a value hashing to the id, repair() must restore every restorable job and never change a data file.",
    "Trusted: Python's json parser as the definition of 'parses', canon.job_id for the damage verdict. Multi-byte damage other than the listed classes and subsets above 3 jobs are not covered.",
    "exhaustive single-fault enumeration over file bytes + bounded multi-fault product, independent damage classifier as oracle", "DESIGN.md section 6 C09")
chk("C08", "engine-H", "model_checking",
    "All reachable states (workspace ids x cache-file content x in-memory cache keys x read flag) of a closed universe of 3 (quick) / 4 (thorough) state points under init/remove/re-key/update_cache/restart/delete-cache/query/open-by-id are explored to a fixpoint on the real Project API; in every state a battery (len, iteration, 6 filters, open-by-id, cached_statepoint, membership) must answer identically with and without the cache file and equal the model; every update_cache transition must leave an exact file and make a second call a no-op.",
    "Trusted: the state abstraction (cache values are determined by their id), the model (a set of initialised indices). Job documents and retained job handles are outside this universe.",
    "explicit-state model checking of the implementation to closure (BFS with state hashing), model in lock step", "DESIGN.md section 6 C08")
ENGINES[0]["serves_properties"] = ["C01", "C06", "C07", "C09", "C18"]
chk("C07", "engine-I", "exploration",
    "On 15 on-disk corpora every rewrite-closure spelling (namespace none/sp./{'sp':..}; dotted/nested/mixed key; operator nested/suffix; mapping, sequence of pairs, find_jobs string, command-line tokens via parse_filter_arg+_find_job_ids and, in thorough, via signac.__main__.main()) of every atom and of a depth-2 set must select the reference id set; for 34 filters per corpus len/iteration/every index/every slice/membership of every universe job (initialised or not) must describe one id set; groupby over 16 key specs x 3 defaults x 4 selections must be a disjoint exact partition whose labels equal each member's own values in key order.",
    "Trusted: vlib/refmodels/query.py. Token spellings only for values whose text casts back; unsortable label corpora skipped and counted.",
    "bounded-exhaustive enumeration of spellings / cursor operations / grouping keys against a reference model", "DESIGN.md section 6 C07")
ENGINES[1]["serves_properties"] = ["C03", "C08"]
chk("C03", "engine-H", "model_checking",
    "Breadth-first search over histories of ~30 public operations (open/init, document set/delete, file creation, clear/reset/remove, state point key set/type toggle/delete/nested edit/whole assignment, update_statepoint x overwrite, move, clone, update_cache, new Project object, reopen by id, decoy directories) on two projects with up to 5 live handles per job (by state point, copy.copy, deepcopy, pickle in-process and through a fresh process), to depth 3 (quick) / 4 (thorough) over the full alphabet and depth 5 / 6 over a closed sub-universe, de-duplicated by canonical state. After every transition the ids, state points, documents and file trees seen through fresh handles equal a plain model, check() passes, directory names hash their state point file, len/iteration/membership agree, decoys are not jobs, no temp/backup files remain, and every current handle (shallow copies included) describes its job.",
    "Trusted: the reference model in vlib/world.py and its currency rule (handles whose job was removed/re-keyed/moved through another handle are not used again). Histories beyond the depth bound are not covered.",
    "explicit-state model checking of the implementation (BFS over API histories, canonical-state hashing), reference model in lock step", "DESIGN.md section 6 C03")
