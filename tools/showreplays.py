#!/usr/bin/env python3
import json, glob, sys
prop = sys.argv[1]
seen = {}
for f in sorted(glob.glob(f'/verif/replays/{prop}/*.json')):
    d = json.load(open(f))
    k = json.dumps(d['signature'], sort_keys=True)
    if k in seen: continue
    seen[k] = 1
    print(k); print('   input:', json.dumps(d['input'])[:int(sys.argv[2]) if len(sys.argv)>2 else 400]); print('   msg  :', str(d['message'])[:500]); print()
