#!/bin/bash
# tools/thorough_order.sh: thorough tier of every check, the long / most recently changed ones first
cd "$(dirname "$0")/.."
for c in C03 C08 C05 C15 C12 C10 C11 C09 C02 C04 C06 C07 C13 C14 C16 C17 C18 C19 C20 C01; do
  out=$(./vcheck $c --tier thorough 2>&1); rc=$?
  echo "$c rc=$rc $(echo "$out" | grep -E "^\[C" | sed 's/evidence=.*//' | cut -c1-220)"
  if [ $rc -ne 0 ]; then echo "$out" | grep -E "VIOLATION|HARNESS|unlisted" | head -6; fi
done
