#!/bin/bash
# tools/try.sh <worktree> <seed-id> <checks...>: apply a seeded patch to a scratch worktree, run checks against it, revert
wt=$1; id=$2; shift 2
cd /verif
git -C $wt checkout -q -- .
git -C $wt apply /verif/seeded/$id/patch.diff || exit 3
for c in "$@"; do
  out=$(VCHECK_REPO=$wt ./vcheck $c 2>&1); rc=$?
  echo "$id $c rc=$rc $(echo "$out" | grep -E 'unlisted signature|HARNESS' | head -3 | sed 's/.*unlisted signature //' | tr '\n' ' ' | cut -c1-300)"
done
git -C $wt checkout -q -- .
