#!/bin/bash
# tools/validate_evidence.sh: validate every evidence file and the manifest against the task's schemas (needs jsonschema: python3-vt)
python3-vt - <<'PY'
import json, jsonschema, glob, sys
ok = True
sch = json.load(open('/root/.vp/EVIDENCE.schema.json'))
for f in sorted(glob.glob('/verif/evidence/*.json')):
    try:
        jsonschema.validate(json.load(open(f)), sch)
    except Exception as e:
        ok = False
        print("INVALID", f, str(e)[:200])
try:
    jsonschema.validate(json.load(open('/verif/MANIFEST.json')), json.load(open('/root/.vp/MANIFEST.schema.json')))
except Exception as e:
    ok = False
    print("INVALID MANIFEST", str(e)[:200])
print("all valid" if ok else "see above")
sys.exit(0 if ok else 1)
PY
