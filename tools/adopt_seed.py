#!/usr/bin/env python3
"""tools/adopt_seed.py <seed-id e.g. C06-1> [check ...]
Validate a sub-agent's mutant in its own worktree (patch applies, 310 tests pass, demo fails with / passes without),
copy it to /verif/seeded/<id>/, run the named checks (default: the property's own) against /repo with the patch applied,
and write meta.json."""
import json, os, re, shutil, subprocess, sys
sid = sys.argv[1]
prop = sid.split("-")[0]
checks = sys.argv[2:] or [prop]
wt = os.path.join(os.environ.get("SEED_BASE", "/tmp/seed"), prop)
sd = f"{wt}/_seed/{sid}"
if not os.path.exists(f"{sd}/patch.diff"):
    sys.exit(f"{sd}/patch.diff missing")
r = subprocess.run(["/verif/tools/validate_seed.sh", wt, sd], capture_output=True, text=True)
line = [l for l in r.stdout.splitlines() if l.startswith("RESULT")][-1]
print(line)
m = re.search(r"demo_clean=(\d+) demo_mutant=(\d+) tests='(.*)'", line)
ok = bool(m) and m.group(1) == "0" and m.group(2) != "0" and "310 passed" in m.group(3)
dst = f"/verif/seeded/{sid}"
os.makedirs(dst, exist_ok=True)
for f in ("patch.diff", "demo.py", "README.md"):
    if os.path.exists(f"{sd}/{f}"):
        shutil.copy(f"{sd}/{f}", f"{dst}/{f}")
readme = open(f"{sd}/README.md").read() if os.path.exists(f"{sd}/README.md") else ""
caught = {}
if ok:
    if subprocess.run(["git", "-C", "/repo", "apply", "--check", f"{dst}/patch.diff"]).returncode != 0:
        print("patch does not apply to /repo"); ok = False
    else:
        subprocess.run(["git", "-C", "/repo", "apply", f"{dst}/patch.diff"], check=True)
        try:
            for c in checks:
                o = subprocess.run(["/verif/vcheck", c], capture_output=True, text=True, cwd="/verif")
                kinds = [l.split("unlisted signature ")[1] for l in o.stdout.splitlines() if "unlisted signature" in l][:3]
                caught[c] = {"rc": o.returncode, "signatures": kinds}
                print(f"  {c}: rc={o.returncode} {kinds[:2]}")
        finally:
            subprocess.run(["git", "-C", "/repo", "checkout", "--", "."], check=True)
meta = {"id": sid, "property": prop, "validated": ok, "validation": line,
        "needs_to_manifest": readme.strip()[:1500],
        "checks_run": checks, "result": caught,
        "caught_by": [c for c, v in caught.items() if v["rc"] == 1],
        "ran": "tools/validate_seed.sh in the sub-agent's worktree; then git -C /repo apply patch.diff; ./vcheck <check>; git -C /repo checkout -- ."}
json.dump(meta, open(f"{dst}/meta.json", "w"), indent=1)
print("validated" if ok else "NOT VALIDATED", "caught_by", meta["caught_by"])
