#!/bin/bash
# tools/allchecks.sh [tier] [seed...]  : run every check, print one line per check
tier="${1:-quick}"; shift
seeds="${@:-0}"
cd /verif
for seed in $seeds; do
  for i in $(seq -w 1 20); do
    c="C$i"
    start=$(date +%s.%N)
    out=$(VERIF_SEED=$seed ./vcheck $c --tier $tier 2>&1); rc=$?
    echo "seed=$seed $c rc=$rc $(echo "$out" | grep -E "^\[C" | sed 's/evidence=.*//' | cut -c1-200)"
    if [ $rc -ne 0 ]; then echo "$out" | grep -E "VIOLATION|HARNESS|unlisted" | head -5; fi
  done
done
