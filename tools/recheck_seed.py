#!/usr/bin/env python3
"""tools/recheck_seed.py <seed-id> <check ...>: apply an already adopted seeded change to /repo, run the named checks, revert,
and record the outcome in its meta.json (first_run keeps what the checks said when the seed was adopted)."""
import json, subprocess, sys
sid, checks = sys.argv[1], sys.argv[2:]
dst = f"/verif/seeded/{sid}"
meta = json.load(open(f"{dst}/meta.json"))
meta.setdefault("first_run", {"checks_run": meta.get("checks_run"), "caught_by": meta.get("caught_by")})
subprocess.run(["git", "-C", "/repo", "apply", f"{dst}/patch.diff"], check=True)
caught = {}
try:
    for c in checks:
        o = subprocess.run(["/verif/vcheck", c], capture_output=True, text=True, cwd="/verif")
        kinds = [l.split("unlisted signature ")[1] for l in o.stdout.splitlines() if "unlisted signature" in l][:3]
        caught[c] = {"rc": o.returncode, "signatures": kinds}
        print(f"{sid} {c}: rc={o.returncode} {kinds[:2]}")
        if o.returncode == 1:
            break
finally:
    subprocess.run(["git", "-C", "/repo", "checkout", "--", "."], check=True)
meta["checks_run"] = checks
meta["result"] = caught
meta["caught_by"] = [c for c, v in caught.items() if v["rc"] == 1]
json.dump(meta, open(f"{dst}/meta.json", "w"), indent=1)
