#!/bin/bash
# tools/sedmut.sh <repo-relative-file> <sed-expr> <check...> : mutate one file of /repo with sed, run checks, revert.
f="$1"; expr="$2"; shift 2
cp /repo/$f /dev/shm/sedmut.bak
sed -i "$expr" /repo/$f
if cmp -s /repo/$f /dev/shm/sedmut.bak; then echo "SED DID NOT CHANGE ANYTHING"; exit 3; fi
git -C /repo diff --stat | tail -1
rcs=""
for c in "$@"; do
  out=$(cd /verif && ./vcheck $c 2>&1); rc=$?
  echo "$out" | grep -E "VIOLATION|HARNESS|unlisted sig|^\[C" | head -5
  rcs="$rcs $c=$rc"
done
cp /dev/shm/sedmut.bak /repo/$f
git -C /repo diff --quiet || echo "WARNING repo not clean"
echo "RESULT [$expr]:$rcs"
