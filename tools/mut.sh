#!/bin/bash
# tools/mut.sh <patch-file> <check-id> [tier]  : apply a patch to /repo, run the check, revert. Prints rc.
patch="$1"; shift
if ! git -C /repo apply --check "$patch" 2>/dev/null; then echo "PATCH DOES NOT APPLY: $patch"; exit 3; fi
git -C /repo apply "$patch"
rcs=""
for c in "$@"; do
  out=$(cd /verif && ./vcheck $c 2>&1); rc=$?
  echo "$out" | grep -E "VIOLATION|HARNESS|^\[C" | head -6
  rcs="$rcs $c=$rc"
done
git -C /repo checkout -- . 
echo "RESULT $patch :$rcs"
