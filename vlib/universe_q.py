"""Filter / corpus universes shared by C06 and C07 (simplest first, deterministic)."""
import itertools

from .refmodels.query import MISSING

# key paths: id -> (namespace, nodes)
PATHS = {"A": ("sp", ("a",)), "B": ("sp", ("b", "c")), "X": ("doc", ("x",)), "N": ("doc", ("n", "m")),
         # keys whose first component merely STARTS with a namespace name
         "S": ("sp", ("spin", "up")), "D": ("sp", ("docs", "k"))}

# full value universe (atom level)
U_FULL = [1, 1.0, True, 2, 2.5, None, "1", "ab", [1, 2], {"c": 1}, {"c": "x"}, MISSING, 0, False, -2, -2.0,
          [{"x": 1}], [{"x": 1.0, "y": 2}]]  # lists holding mappings (hashed through a helper type inside the index)
# reduced universes (combination levels)
U_RED = {"A": [1, 1.0, True, "1", "ab", [1, 2], MISSING], "B": [1, "x", MISSING], "X": [1, 2.5, MISSING],
         "N": [1, MISSING], "S": [1, "x", MISSING], "D": [1, MISSING]}
U_COLLIDE = [1, 1.0, True, "1", MISSING, -2, -2.0]

ARGS = {
    None: [1, 1.0, True, 2, 2.5, None, "1", "ab", [1, 2], [1.0, 2], 0, False, -2, -2.0, 9007199254740993, [{"x": 1.0}],
           [{"y": 2, "x": 1}]],
    "$eq": [1, 1.0, True, 2, 2.5, None, "1", "ab", [1, 2], [1.0, 2], 0, False, -2, -2.0, 9007199254740993, [{"x": 1.0}],
            [{"y": 2, "x": 1}]],
    "$ne": [1, 1.0, True, 2, 2.5, None, "1", "ab", [1, 2], [1.0, 2], 0, False, -2, -2.0],
    "$gt": [1, 1.0, 2.5, True, "1", "ab", [1, 2], None, -2, 9007199254740992],
    "$gte": [1, 1.0, 2.5, True, "1", "ab", [1, 2], None, -2],
    "$lt": [1, 1.0, 2.5, True, "1", "ab", [1, 2], None, -2],
    "$lte": [1, 1.0, 2.5, True, "1", "ab", [1, 2], None, -2],
    "$in": [[1], [1.0], [True], [1, "1"], [2.5, None], [[1, 2]], ["ab", 2], [], [-2.0], [0]],
    "$nin": [[1], [1.0], [True], [1, "1"], [2.5, None], [[1, 2]], ["ab", 2], [], [-2.0], [0]],
    "$exists": [True, False],
    "$regex": ["1", "^a", "b$", "x", ""],
    "$type": ["int", "float", "bool", "str", "list", "null"],
    "$near": [1, 1.0, 2.5, [1], [1.05, 0.1], [2, 0, 0.6], -2],
}
OPS_ORDER = [None, "$eq", "$ne", "$gt", "$gte", "$lt", "$lte", "$in", "$nin", "$exists", "$regex", "$type", "$near"]


def all_atoms():
    """(path id, op, arg) for every path x operator x argument."""
    for p in PATHS:
        for op in OPS_ORDER:
            for arg in ARGS[op]:
                yield (p, op, arg)


# representative atoms for combinations: one per operator x namespace x colliding-value class
R30 = [
    ("A", None, 1), ("A", None, True), ("A", "$eq", 1.0), ("A", "$ne", 1), ("A", "$gt", 1), ("A", "$lte", 1.0),
    ("A", "$in", [1, "1"]), ("A", "$nin", [1.0]), ("A", "$exists", True), ("A", "$exists", False),
    ("A", "$regex", "1"), ("A", "$type", "bool"), ("A", "$type", "int"), ("A", "$type", "float"),
    ("A", "$near", 1), ("A", None, [1, 2]), ("A", "$type", "list"),
    ("B", None, 1), ("B", "$ne", "x"), ("B", "$exists", True), ("B", "$type", "str"), ("B", "$lt", 2),
    ("X", None, 1), ("X", "$gte", 2.5), ("X", "$exists", False), ("X", "$type", "float"), ("X", "$in", [1, 2.5]),
    ("N", None, 1), ("N", "$exists", True), ("N", "$ne", 1),
    ("S", None, 1), ("S", "$exists", True), ("D", None, 1), ("D", "$lt", 2),
]
R8 = [("A", None, 1), ("A", "$type", "bool"), ("A", "$exists", False), ("A", "$gt", 1),
      ("B", None, "x"), ("X", "$gte", 2.5), ("X", "$exists", True), ("N", "$ne", 1),
      # two different non-numeric values under one key (results that are the index's own sets)
      ("A", None, "1"), ("A", None, "ab")]


def key_of(p):
    ns, nodes = PATHS[p]
    k = ".".join(nodes)
    return k if ns == "sp" else "doc." + k


def spell(atom):
    """Base spelling of an atom: dotted key, namespace prefix only for doc, operator as nested mapping."""
    p, op, arg = atom
    return {key_of(p): arg if op is None else {op: arg}}


def merge(*filters):
    """Sibling conjunction; None if two clauses use the same key (a mapping cannot say that)."""
    out = {}
    for f in filters:
        for k, v in f.items():
            if k in out:
                return None
            out[k] = v
    return out


def depth2_filters():
    """(filter, set of path ids, structure tag) over R30."""
    for x in R30:
        yield {"$not": spell(x)}, {x[0]}, "not"
    for x, y in itertools.product(R30, repeat=2):
        ps = {x[0], y[0]}
        yield {"$and": [spell(x), spell(y)]}, ps, "and"
        yield {"$or": [spell(x), spell(y)]}, ps, "or"
        m = merge(spell(x), spell(y))
        if m is not None:
            yield m, ps, "sibling"
        yield merge({"$not": spell(x)}, spell(y)), ps, "not+sibling"


def depth3_filters():
    for x in R8:
        yield {"$not": {"$not": spell(x)}}, {x[0]}, "not-not"
    for x, y in itertools.product(R8, repeat=2):
        ps = {x[0], y[0]}
        yield {"$not": {"$or": [spell(x), spell(y)]}}, ps, "not-or"
        yield {"$not": {"$and": [spell(x), spell(y)]}}, ps, "not-and"
        yield {"$or": [{"$not": spell(x)}, spell(y)]}, ps, "or-not"
        yield {"$and": [{"$not": spell(x)}, {"$not": spell(y)}]}, ps, "and-not-not"
    for x, y, z in itertools.product(R8, repeat=3):
        ps = {x[0], y[0], z[0]}
        yield {"$and": [{"$or": [spell(x), spell(y)]}, spell(z)]}, ps, "and-or"
        yield {"$or": [{"$and": [spell(x), spell(y)]}, spell(z)]}, ps, "or-and"
        m = merge({"$or": [spell(x), spell(y)]}, spell(z))
        yield m, ps, "or+sibling"
        yield {"$not": merge({"$or": [spell(x), {"$not": spell(y)}]}, spell(z))}, ps, "not(or-not+sibling)"


def make_job(values):
    """values: {path id: value or MISSING} -> (sp, doc or None)."""
    sp, doc = {}, {}
    for p, v in values.items():
        if v is MISSING:
            continue
        ns, nodes = PATHS[p]
        root = sp if ns == "sp" else doc
        for n in nodes[:-1]:
            root = root.setdefault(n, {})
        root[nodes[-1]] = v
    return sp, (doc if doc else None)


def jobs_over(paths, universes):
    """All jobs over the product of the universes of the given path ids."""
    paths = sorted(paths)
    for combo in itertools.product(*[universes[p] for p in paths]):
        yield make_job(dict(zip(paths, combo)))


def corpora(jobs, max_n=2, ordered=True):
    """All corpora of 1..max_n jobs (ordered tuples of indices, repetition allowed)."""
    n = len(jobs)
    for i in range(n):
        yield (i,)
    if max_n >= 2:
        for i, j in itertools.product(range(n), repeat=2):
            yield (i, j)
    if max_n >= 3:
        for c in itertools.product(range(n), repeat=3):
            yield c
