"""A scratch world (projects P and Q, a table of live job handles) plus its plain reference model.

Used by the history checks (C02, C03, C04).  `World.apply(op)` calls the real API and steps the
model; `World.check()` compares what a user sees through FRESH handles (and a raw walk of the
disk) with the model; `World.key()` is the canonical state used for de-duplication.
"""
import copy
import hashlib
import json
import os
import pickle

from . import canon

SP_FILE = "signac_statepoint.json"
DOC_FILE = "signac_job_document.json"
STATEPOINTS = [{"a": 1}, {"a": 2}]
FILES = {"f1": b"one", "sub/f2": b"two"}


class Unexpected(Exception):
    """The implementation's outcome differs from the model's expectation."""

    def __init__(self, kind, msg, **extra):
        super().__init__(msg)
        self.kind = kind
        self.extra = extra


def _jcopy(v):
    return json.loads(json.dumps(v))


class World:
    def __init__(self, root, salt=0):
        import signac

        self.signac = signac
        self.root = root
        self.salt = salt
        self.paths = {t: os.path.join(root, t) for t in ("P", "Q")}
        for p in self.paths.values():
            os.makedirs(p)
            signac.init_project(p)
        self.proj = {t: signac.Project(p) for t, p in self.paths.items()}
        self.slots = {}  # slot -> Job
        # model
        self.jobs = {"P": {}, "Q": {}}  # tag -> id -> {"sp", "doc", "files"}
        self.decoys = {"P": {}, "Q": {}}  # tag -> name -> must-not-be-a-job flag
        self.group_of = {}  # slot -> group number
        self.groups = {}  # group -> {"proj": tag, "sp": dict}
        self._ng = 0
        self.ncalls = 0
        self.zombies = []
        self.by_id = set()  # slots whose handle was opened by id (it may not know its state point yet)
        self.lazy_copy = {}  # slot -> the shallow copy linking it to its group was made before the state point object existed
        # slots whose job directory disappeared through ANOTHER handle (removed / re-keyed away): per-handle fields are
        # out of date; the documented way back is the handle's own init() or remove(), nothing else is offered
        self.stale = set()
        # revived handles are used for document / file operations only: what a state point edit through a handle does whose
        # state point object was shared with objects that no longer exist is not something the property speaks about
        self.limited = set()

    # ------------------------------------------------------------------ helpers
    def sp(self, i):
        s = dict(STATEPOINTS[i])
        if self.salt:
            s["salt"] = self.salt
        return s

    def _new_group(self, proj, sp):
        self._ng += 1
        self.groups[self._ng] = {"proj": proj, "sp": _jcopy(sp)}
        return self._ng

    def g(self, slot):
        return self.groups[self.group_of[slot]]

    def _drop_slot(self, slot):
        self.slots.pop(slot, None)
        self.stale.discard(slot)
        self.limited.discard(slot)
        g = self.group_of.pop(slot, None)
        if g is not None and g not in self.group_of.values():
            self.groups.pop(g, None)

    def _invalidate_others(self, group, proj, jid, revivable=False):
        """Independent handles on (proj, jid) become non-current: dropped, or (revivable) kept as stale."""
        for slot in list(self.slots):
            gg = self.group_of[slot]
            if gg != group and self.groups[gg]["proj"] == proj and canon.job_id(self.groups[gg]["sp"]) == jid:
                if revivable and _revivable(self.slots[slot]) and not (slot in self.by_id and _unloaded(self.slots[slot])):
                    self.stale.add(slot)
                else:
                    self._drop_slot(slot)

    def _drop_group(self, group, keep=None, revivable=False):
        for slot in list(self.slots):
            if self.group_of[slot] == group and slot != keep:
                if revivable and _revivable(self.slots[slot]) and not (slot in self.by_id and _unloaded(self.slots[slot])):
                    self.stale.add(slot)
                else:
                    self._drop_slot(slot)

    def model_job(self, slot):
        g = self.g(slot)
        return self.jobs[g["proj"]].get(canon.job_id(g["sp"]))

    def _ensure_model_job(self, slot):
        g = self.g(slot)
        return self.jobs[g["proj"]].setdefault(canon.job_id(g["sp"]), {"sp": _jcopy(g["sp"]), "doc": {}, "files": {}})

    # ------------------------------------------------------------------ enabled operations
    def enabled(self, alphabet):
        """alphabet: dict of option flags. Returns a list of concrete ops, simplest first."""
        ops = []
        for name, i in (("A", 0), ("B", 1)):
            if name not in self.slots and alphabet.get("open", True):
                ops.append(("open", name, i))
        for s in sorted(self.slots):
            if len(s) == 1 and s not in self.stale:
                for kind, suffix in (("copy", "c"), ("deep", "d"), ("pickle", "p"), ("copy", "e")):
                    if suffix == "e" and not alphabet.get("copy2", False):
                        continue  # (a second shallow copy of the same handle)
                    if alphabet.get(kind, True) and s + suffix not in self.slots:
                        ops.append((kind, s, s + suffix))

        for s in sorted(self.slots):
            if s in self.stale:
                ops += [("init", s), ("remove", s)]
                continue
            ops.append(("init", s))
            if alphabet.get("doc", True):
                ops += [("doc_set", s), ("doc_del", s)]
                if alphabet.get("doc_assign", True):
                    ops.append(("doc_assign", s))
            if alphabet.get("files", True):
                ops += [("write", s, "f1")]
                if alphabet.get("files2", True):
                    ops += [("write", s, "sub/f2")]
            ops += [("clear", s), ("reset", s), ("remove", s)]
            if alphabet.get("rekey", True) and s not in self.limited:
                ops += [("sp_set", s, "b"), ("sp_toggle", s), ("sp_del", s, "b"), ("sp_nested", s),
                        ("sp_assign", s, 1 if self.g(s)["sp"].get("a") == 1 else 0),
                        ("update_sp", s, "b", False), ("update_sp", s, "a5", False), ("update_sp", s, "a5", True)]
                if alphabet.get("assign_typed", True):
                    ops.append(("sp_assign_typed", s))
            if alphabet.get("move", True) and self.g(s)["proj"] == "P" and s not in self.limited:
                ops += [("move", s), ("clone", s)]
            if alphabet.get("reopen", True) and self.model_job(s) is not None:
                ops.append(("reopen", s))
                if alphabet.get("reopen_session", True):
                    ops.append(("reopen_session", s))  # by id through the long-lived Project (as iteration hands them out)
            if alphabet.get("reopen", True) and self.model_job(s) is None and self.g(s)["proj"] == "P" and \
                    canon.job_id(self.g(s)["sp"]) in _priv(self.proj["P"], "_sp_cache", ()):
                # a job that is gone from the workspace stays re-openable by id through a session that still knows it
                ops.append(("reopen_cached", s))
            if alphabet.get("pickle_proc") and len(s) == 1:
                # the handle is pickled into a freshly started process, which performs one operation with it
                ops += [("proc", s, "init"), ("proc", s, "doc_set"), ("proc", s, "sp_set_b"), ("proc", s, "remove")]
        if alphabet.get("cache", True):
            ops.append(("update_cache",))
        if alphabet.get("newproject", True):
            ops.append(("newproject",))
        for kind in alphabet.get("decoys", ("bak", "hex31", "hex33", "tmp")):
            if kind not in self.decoys["P"]:
                ops.append(("decoy", kind))
        return ops

    # ------------------------------------------------------------------ apply
    def apply(self, op):
        """Run op on the real API and on the model.  Raises Unexpected on disagreement.
        Returns True if the operation was an expected failure."""
        from signac.errors import DestinationExistsError

        self.ncalls += 1
        self.zombies = []
        name = op[0]
        if name == "open":
            _, slot, i = op
            sp = self.sp(i)
            caller = _jcopy(sp)
            self.slots[slot] = self.proj["P"].open_job(caller)
            caller.clear()  # later mutation of the caller's mapping must not matter
            self.group_of[slot] = self._new_group("P", sp)
            return False
        if name in ("copy", "deep", "pickle"):
            _, src, dst = op
            job = self.slots[src]
            g = self.g(src)
            lazy = bool(_priv(job, "_statepoint_requires_init", False))
            has_copy = _has_live_copy(job) or sum(1 for x in self.group_of.values() if x == self.group_of[src]) > 1
            try:
                if name == "copy":
                    new = copy.copy(job)
                elif name == "deep":
                    new = copy.deepcopy(job)
                else:
                    new = pickle.loads(pickle.dumps(job))
            except BaseException as e:  # noqa
                raise Unexpected(f"{name}-raises", f"{name} of handle {src} raised {type(e).__name__}: {e}",
                                 handle_has_live_shallow_copy=has_copy, exc=type(e).__name__)
            self.slots[dst] = new
            if name == "copy":
                self.lazy_copy[dst] = lazy
                self.lazy_copy.setdefault(src, lazy)
            self.group_of[dst] = self.group_of[src] if name == "copy" else self._new_group(g["proj"], g["sp"])
            return False
        if name == "update_cache":
            self.proj["P"].update_cache()
            return False
        if name == "newproject":
            self.proj["P"] = self.signac.Project(self.paths["P"])
            return False
        if name == "decoy":
            kind = op[1]
            base = canon.job_id(self.sp(0))
            dname = {"bak": base + ".bak", "hex31": base[:31], "hex33": base + "0", "tmp": "tmp"}[kind]
            os.makedirs(os.path.join(self.paths["P"], "workspace", dname), exist_ok=True)
            self.decoys["P"][kind] = dname
            return False

        slot = op[1]
        job = self.slots[slot]
        grp = self.group_of[slot]
        g = self.groups[grp]
        proj = g["proj"]
        jid = canon.job_id(g["sp"])
        mj = self.jobs[proj].get(jid)

        def run(fn, expect=None, what=""):
            """Call fn; expect = None (must succeed) | exception class/tuple (must raise exactly that)."""
            try:
                fn()
            except BaseException as e:  # noqa
                if expect is not None and isinstance(e, expect):
                    return True
                raise Unexpected("operation-raises" if expect is None else "wrong-exception-class",
                                 f"{op} {what}: raised {type(e).__name__}: {e}"
                                 + ("" if expect is None else f", expected {expect}"), op=name, exc=type(e).__name__)
            if expect is not None:
                raise Unexpected("expected-failure-did-not-happen", f"{op} {what}: succeeded, expected {expect}", op=name)
            return False

        if name == "init":
            run(job.init)
            self._ensure_model_job(slot)
            if slot in self.stale:
                self.limited.add(slot)
            self.stale.discard(slot)
        elif name == "doc_set":
            def f():
                job.doc["x"] = (mj["doc"].get("x", 0) + 1) if mj else 1
            run(f)
            m = self._ensure_model_job(slot)
            m["doc"]["x"] = m["doc"].get("x", 0) + 1
        elif name == "doc_assign":
            # whole-document assignment through the `doc` / `document` aliases (alternating): replaces, never merges
            n = (mj["doc"].get("n", 0) + 1) if mj else 1
            def f():
                if n % 2:
                    job.doc = {"n": n}
                else:
                    job.document = {"n": n}
            run(f)
            m = self._ensure_model_job(slot)
            m["doc"] = {"n": n}
        elif name == "doc_del":
            def f():
                del job.doc["x"]
            missing = mj is None or "x" not in mj["doc"]
            failed = run(f, KeyError if missing else None)
            m = self._ensure_model_job(slot)  # job.doc initialises the job lazily
            m["doc"].pop("x", None)
            return failed
        elif name == "write":
            fname = op[2]
            def f():
                job.init()
                path = job.fn(fname)
                os.makedirs(os.path.dirname(path), exist_ok=True)
                with open(path, "wb") as fh:
                    fh.write(FILES[fname])
            run(f)
            self._ensure_model_job(slot)["files"][fname] = FILES[fname]
        elif name == "clear":
            run(job.clear)
            if mj is not None:
                mj["doc"], mj["files"] = {}, {}
        elif name == "reset":
            run(job.reset)
            m = self._ensure_model_job(slot)
            m["doc"], m["files"] = {}, {}
        elif name == "remove":
            shared_doc = getattr(job, "_document", None)
            run(job.remove)
            self.jobs[proj].pop(jid, None)
            # shallow copies of the removing handle: no further operations are offered through them, but a document
            # object they already hold must not keep showing the removed job's data
            # (only the document object the removing handle itself held and shares with its copies is judged)
            self.zombies = [(x, self.slots[x]) for x in self.slots if self.group_of[x] == grp and x != slot
                            and shared_doc is not None and getattr(self.slots[x], "_document", None) is shared_doc]
            # per-handle fields (_directory_known, document handle) of every OTHER handle on this job are stale
            # now, shallow copies included: only re-keys are promised to propagate.  They are not offered any more.
            self._invalidate_others(grp, proj, jid, revivable=True)
            self._drop_group(grp, keep=slot, revivable=True)
            if slot in self.stale:
                self.limited.add(slot)
            self.stale.discard(slot)
            if slot in self.by_id and _unloaded(job):
                # opened by id and never asked for its state point: with the job gone nobody can tell it any more
                self._drop_slot(slot)
        elif name in ("sp_set", "sp_toggle", "sp_del", "sp_nested", "sp_assign", "sp_assign_typed", "update_sp"):
            old = g["sp"]
            new = _jcopy(old)
            expect = None
            if name == "sp_set":
                new["b"] = 2
                def f():
                    job.sp["b"] = 2
            elif name in ("sp_toggle", "sp_assign_typed"):
                a = old.get("a")
                new["a"] = (float(a) if isinstance(a, int) else int(a)) if isinstance(a, (int, float)) else 1
                if name == "sp_toggle":
                    def f():
                        job.sp.a = new["a"]
                else:
                    def f():
                        job.statepoint = _jcopy(new)
            elif name == "sp_del":
                if "b" in old:
                    del new["b"]
                else:
                    expect = KeyError
                def f():
                    del job.sp["b"]
            elif name == "sp_nested":
                if "c" in old:
                    new["c"]["d"] = 2
                    def f():
                        job.sp.c.d = 2
                else:
                    new["c"] = {"d": 1}
                    def f():
                        job.sp.c = {"d": 1}
            elif name == "sp_assign":
                new = self.sp(op[2])
                def f():
                    given = self.sp(op[2])
                    try:
                        job.statepoint = given
                    finally:
                        given.clear()  # later use of the caller's own mapping must not matter
                        given["a"] = "changed by the caller"
            else:
                upd = {"b": 2} if op[2] == "b" else {"a": 5}
                overwrite = op[3]
                # "exists with another value" is Python inequality, as the implementation documents it; an update
                # that only changes the JSON type of an equal value (5.0 -> 5) is an ordinary state point change
                conflict = any(k in old and old[k] != v for k, v in upd.items())
                if conflict and not overwrite:
                    expect = KeyError
                else:
                    new.update(upd)
                def f():
                    job.update_statepoint(upd, overwrite=overwrite)
            if expect is not None:
                run(f, expect, "(no such key / conflicting key)")
                return True
            new_id = canon.job_id(new)
            if new_id != jid and mj is not None and new_id in self.jobs[proj]:
                try:
                    run(f, DestinationExistsError, "(destination initialised)")
                except Unexpected as e:
                    if e.kind == "expected-failure-did-not-happen" and old == new and job.id == jid and \
                            name in ("sp_assign", "sp_assign_typed", "update_sp"):
                        # the requested change only re-types equal values (5.0 -> 5): the whole-assignment routes ignore
                        # it altogether (open finding KF-C03-4), so the collision with the other job is never reached
                        raise Unexpected("state-point-assignment-ignores-type-only-difference",
                                         f"{op}: state point {old} -> {new} requested (the destination exists), nothing happened",
                                         op=name, route="whole")
                    raise
                self._drop_group(grp)  # a failed re-key leaves the handle's in-memory state point edited
                return True
            run(f)
            if job.id != new_id:
                raise Unexpected("state-point-assignment-ignores-type-only-difference" if old == new
                                 else "state-point-change-has-no-effect",
                                 f"{op}: state point {old} -> {new} requested, handle still reports id {job.id} "
                                 f"and state point {job.statepoint()!r}", op=name,
                                 route="whole" if name in ("sp_assign", "sp_assign_typed", "update_sp") else "item")
            if new_id != jid:
                self._invalidate_others(grp, proj, jid, revivable=mj is not None)
                if mj is not None:
                    self.jobs[proj].pop(jid)
                    mj["sp"] = _jcopy(new)
                    self.jobs[proj][new_id] = mj
            g["sp"] = new
        elif name == "move":
            dst = self.proj["Q"]
            if mj is None:
                run(lambda: job.move(dst), RuntimeError, "(uninitialised move)")
                return True
            if jid in self.jobs["Q"]:
                run(lambda: job.move(dst), DestinationExistsError, "(destination initialised)")
                return True
            run(lambda: job.move(dst))
            self.jobs["P"].pop(jid)
            self.jobs["Q"][jid] = mj
            self._invalidate_others(grp, "P", jid)
            self._drop_group(grp, keep=slot)
            g["proj"] = "Q"
        elif name == "clone":
            dst = self.proj["Q"]
            if mj is None:
                run(lambda: dst.clone(job), Exception, "(uninitialised source)")
                return True
            if jid in self.jobs["Q"]:
                run(lambda: dst.clone(job), DestinationExistsError, "(destination initialised)")
                return True
            run(lambda: dst.clone(job))
            self.jobs["Q"][jid] = copy.deepcopy(mj)
        elif name == "proc":
            what = op[2]
            has_copy = _has_live_copy(job) or sum(1 for x in self.group_of.values() if x == grp) > 1
            try:
                blob = pickle.dumps(job)
            except BaseException as e:  # noqa
                raise Unexpected("pickle-raises", f"pickling handle {slot} raised {type(e).__name__}: {e}",
                                 handle_has_live_shallow_copy=has_copy, exc=type(e).__name__)
            status, detail = _run_in_fresh_process(blob, what)
            if status != "ok":
                raise Unexpected("pickle-raises" if status == "unpickle" else "operation-raises",
                                 f"in a fresh process: {status} of handle {slot} failed with {detail}",
                                 handle_has_live_shallow_copy=has_copy, exc=detail.split(":")[0], op="proc-" + what)
            # the other process is an independent handle on the same job
            if what == "init":
                self._ensure_model_job(slot)
            elif what == "doc_set":
                m = self._ensure_model_job(slot)
                m["doc"]["x"] = m["doc"].get("x", 0) + 1
            elif what == "remove":
                self.jobs[proj].pop(jid, None)
                self._invalidate_others(None, proj, jid)
            elif what == "sp_set_b":
                new = _jcopy(g["sp"])
                new["b"] = 2
                new_id = canon.job_id(new)
                if new_id != jid:
                    if mj is not None:
                        self.jobs[proj].pop(jid)
                        mj["sp"] = new
                        self.jobs[proj][new_id] = mj
                    self._invalidate_others(None, proj, jid)
        elif name == "reopen_session":
            holder = {}
            run(lambda: holder.setdefault("j", self.proj[proj].open_job(id=jid)))
            self._drop_slot(slot)
            self.slots[slot] = holder["j"]
            self.group_of[slot] = self._new_group(proj, g["sp"])
            self.by_id.add(slot)
        elif name == "reopen_cached":
            holder = {}
            run(lambda: holder.setdefault("j", self.proj[proj].open_job(id=jid)))
            self._drop_slot(slot)
            self.slots[slot] = holder["j"]
            self.group_of[slot] = self._new_group(proj, g["sp"])
            self.by_id.add(slot)
        elif name == "reopen":
            p = self.signac.Project(self.paths[proj])
            holder = {}
            run(lambda: holder.setdefault("j", p.open_job(id=jid)))
            self._drop_slot(slot)
            self.slots[slot] = holder["j"]
            self.group_of[slot] = self._new_group(proj, g["sp"])
            self.by_id.add(slot)
        else:
            raise ValueError(op)
        return False

    # ------------------------------------------------------------------ oracle
    def check_handles(self):
        """Every current handle must describe its job as the model does (shallow copies follow re-keys)."""
        out = []
        for slot, job in self.zombies:
            d = getattr(job, "_document", None)
            if d is not None:
                try:
                    seen = canon.plain(d())
                except Exception as e:  # noqa
                    seen = f"{type(e).__name__}: {e}"
                if seen != {}:
                    out.append(("removed-job-document-still-visible", f"after remove() through a sibling, the document object "
                                f"held by shallow copy {slot} still reads {seen!r}", {}))
        for slot in sorted(self.slots):
            if slot in self.stale:
                continue
            job = self.slots[slot]
            g = self.g(slot)
            want_id = canon.job_id(g["sp"])
            members = [x for x in self.slots if self.group_of[x] == self.group_of[slot]]
            extra = {"shallow_copy_group": len(members) > 1,
                     "copy_made_before_statepoint_access": any(self.lazy_copy.get(x, False) for x in members)}
            mj = self.jobs[g["proj"]].get(want_id)
            if mj is None and slot in self.by_id and _unloaded(job):
                # a handle opened by id that has not read its state point cannot do so once the job is gone
                if job.id != want_id:
                    out.append(("handle-does-not-describe-its-job", f"handle {slot} reports id {job.id}, model {want_id}", extra))
                continue
            try:
                got = {"id": job.id, "path": os.path.relpath(job.path, self.root),
                       "sp": canon.plain(job.statepoint()), "csp": canon.plain(dict(job.cached_statepoint))}
                mj = self.jobs[g["proj"]].get(want_id)
                if mj is not None:
                    got["doc"] = canon.plain(job.document())
            except Exception as e:  # noqa
                out.append(("handle-raises", f"handle {slot}: {type(e).__name__}: {e}", extra))
                continue
            want = {"id": want_id, "path": os.path.join(g["proj"], "workspace", want_id), "sp": g["sp"], "csp": g["sp"]}
            if mj is not None:
                want["doc"] = mj["doc"]
            bad = [k for k in want if not (canon.typed_eq(got[k], want[k]))]
            if bad:
                out.append(("handle-does-not-describe-its-job",
                            f"handle {slot} reports { {k: got[k] for k in bad} }, model { {k: want[k] for k in bad} }", extra))
        return out

    def check(self):
        """Compare fresh-handle observations and the raw disk with the model. Returns list of (kind, msg, extra)."""
        out = []
        for tag, path in self.paths.items():
            want = self.jobs[tag]
            try:
                p = self.signac.Project(path)
                ids = [j.id for j in p]
                n = len(p)
                members = {jid: (p.open_job(id=jid) in p) for jid in want}
            except Exception as e:  # noqa
                out.append(("listing-raises", f"project {tag}: {type(e).__name__}: {e}", {}))
                continue
            decoys = set(self.decoys[tag].values())
            if sorted(ids) != sorted(want) or n != len(want) or len(set(ids)) != len(ids):
                extra = sorted(set(ids) - set(want))
                out.append(("job-set-differs", f"project {tag}: iteration {sorted(ids)}, len {n}; model {sorted(want)}",
                            {"decoy_counted": bool(set(extra) & decoys) or (n != len(ids) and bool(decoys)),
                             "decoy_kinds": sorted(k for k, v in self.decoys[tag].items()
                                                   if v in extra or n != len(ids))}))
            if not all(members.values()):
                out.append(("membership-differs", f"project {tag}: {members}", {}))
            try:
                p.check()
            except Exception as e:  # noqa
                out.append(("check-fails", f"project {tag}: check() raised {type(e).__name__}: {e}",
                            {"decoy_counted": any(d in str(e) for d in decoys)}))
            for jid, m in want.items():
                try:
                    j = self.signac.Project(path).open_job(id=jid)
                    sp = canon.plain(j.statepoint())
                    csp = canon.plain(dict(self.signac.Project(path).open_job(id=jid).cached_statepoint))
                    doc = canon.plain(j.document()) if os.path.exists(os.path.join(path, "workspace", jid, DOC_FILE)) else {}
                except Exception as e:  # noqa
                    out.append(("fresh-handle-raises", f"{tag}/{jid}: {type(e).__name__}: {e}", {}))
                    continue
                if not canon.typed_eq(sp, m["sp"]) or not canon.typed_eq(csp, m["sp"]):
                    out.append(("statepoint-differs", f"{tag}/{jid}: {sp!r} / {csp!r} vs model {m['sp']!r}", {}))
                if not canon.typed_eq(doc, m["doc"]):
                    out.append(("document-differs", f"{tag}/{jid}: {doc!r} vs model {m['doc']!r}", {}))
                jdir = os.path.join(path, "workspace", jid)
                files = canon.read_tree(jdir)
                raw_sp = files.pop(SP_FILE, None)
                files.pop(DOC_FILE, None)
                if files != m["files"]:
                    out.append(("files-differ", f"{tag}/{jid}: {sorted(files)} vs model {sorted(m['files'])}", {}))
                try:
                    ok = raw_sp is not None and canon.job_id(json.loads(raw_sp.decode())) == jid
                except Exception:
                    ok = False
                if not ok:
                    out.append(("directory-name-not-hash-of-file", f"{tag}/{jid}: file {raw_sp!r}", {}))
            # the long-lived session (warm caches) must agree as well
            try:
                sess = self.proj[tag]
                sids = sorted(j.id for j in sess)
                if sids != sorted(want):
                    out.append(("session-job-set-differs", f"project {tag}: session iteration {sids}; model {sorted(want)}", {}))
                for jid, m in want.items():
                    ssp = canon.plain(sess.open_job(id=jid).statepoint())
                    if not canon.typed_eq(ssp, m["sp"]):
                        out.append(("session-statepoint-differs", f"{tag}/{jid}: the session's open_job(id) gives {ssp!r}, "
                                    f"model {m['sp']!r}", {}))
            except Exception as e:  # noqa
                out.append(("session-raises", f"project {tag}: {type(e).__name__}: {e}", {}))
            # raw walk: no temporary or backup files anywhere
            for dp, dn, fn in os.walk(path):
                for f in fn:
                    if f.endswith("~") or f.startswith("._"):
                        out.append(("temp-file-left-behind", f"{os.path.relpath(os.path.join(dp, f), path)}", {}))
        return out

    # ------------------------------------------------------------------ canonical state
    def key(self):
        h = hashlib.sha1()
        for tag, path in sorted(self.paths.items()):
            snap = canon.snapshot(path)
            for k in sorted(snap):
                if k.endswith("statepoint_cache.json.gz"):
                    h.update(b"cache:" + _cache_digest(os.path.join(path, k)))
                    continue
                h.update(repr((tag, k, snap[k])).encode())
        h.update(self._memory_digest().encode())
        return h.hexdigest()

    def _memory_digest(self):
        objs = {}

        def num(o):
            return objs.setdefault(id(o), len(objs))
        out = []
        projtag = {id(p): t for t, p in self.proj.items()}
        for slot in sorted(self.slots):
            j = self.slots[slot]
            v = vars(j)
            spo = v.get("_statepoint")
            d = {
                "slot": slot, "stale": slot in self.stale, "limited": slot in self.limited, "group": self.group_of[slot], "model_sp": canon.canon_json(self.g(slot)["sp"]),
                "model_proj": self.g(slot)["proj"],
                "id": v.get("_id"), "req_init": v.get("_statepoint_requires_init"),
                "cached": None if v.get("_cached_statepoint") is None else canon.canon_json(canon.plain(v["_cached_statepoint"])),
                "dir_known": v.get("_directory_known"), "path_set": v.get("_path") is not None,
                "doc": None if v.get("_document") is None else _relfile(v["_document"], self.root),
                "stores": v.get("_stores") is not None, "cwd": len(v.get("_cwd") or []),
                "project": projtag.get(id(v.get("_project")), "other#%d" % num(v.get("_project"))),
                "project_cache": sorted(_priv(v.get("_project"), "_sp_cache", ())) + [_priv(v.get("_project"), "_sp_cache_read", None)],
            }
            if spo is not None:
                d["sp_obj"] = num(spo)
                d["sp_data"] = canon.canon_json(canon.plain(spo._data)) if hasattr(spo, "_data") else None
                d["sp_file"] = _relfile(spo, self.root)
                d["sp_jobs"] = len(_priv(spo, "_jobs", ()))
            out.append(d)
        for t, p in sorted(self.proj.items()):
            out.append({"proj": t, "cache": sorted(_priv(p, "_sp_cache", ())), "read": _priv(p, "_sp_cache_read", None)})
        return json.dumps(out, sort_keys=True)


def _priv(obj, name, default):
    """Implementation detail used only to refine state keys / to decide what is NOT judged; absent -> default."""
    return getattr(obj, name, default)


def _unloaded(job):
    """A by-id handle that has not read its state point yet (unknown counts as unloaded: such a handle is not judged)."""
    return bool(_priv(job, "_statepoint_requires_init", True)) and _priv(job, "_cached_statepoint", None) is None


def _revivable(job):
    """A handle that lost its job directory through another handle finds back through its own init() / remove() - unless it
    already holds a document object: synced_collections keeps the in-memory content of a document whose file vanished, so
    such a handle is not used again (unknown counts as holding one)."""
    return _priv(job, "_document", "?") is None


def _relfile(obj, root):
    fn = _priv(obj, "_filename", None) or _priv(obj, "filename", None)
    return None if fn is None else os.path.relpath(fn, root)


def _has_live_copy(job):
    """Another Job object (a shallow copy, possibly one the model no longer uses) shares this handle's state point object."""
    sp = job.__dict__.get("_statepoint")
    try:
        return sp is not None and len(sp._jobs) > 1
    except Exception:
        return False


def _cache_digest(fn):
    import gzip
    try:
        with gzip.open(fn, "rb") as f:
            return hashlib.sha1(f.read()).digest()
    except Exception:
        return b"?"


def _run_in_fresh_process(blob, what):
    """Unpickle the handle in a freshly started interpreter and perform one operation there.
    Returns ("ok", "") | ("unpickle", "<Exc>: msg") | ("operation", "<Exc>: msg")."""
    import subprocess
    import sys

    code = (
        "import sys, pickle\n"
        "try:\n"
        "    job = pickle.loads(sys.stdin.buffer.read())\n"
        "except BaseException as e:\n"
        "    print('unpickle|%s: %s' % (type(e).__name__, str(e)[:200])); sys.exit(0)\n"
        "try:\n"
        "    what = sys.argv[1]\n"
        "    if what == 'init': job.init()\n"
        "    elif what == 'doc_set': job.doc['x'] = job.doc.get('x', 0) + 1\n"
        "    elif what == 'remove': job.remove()\n"
        "    elif what == 'sp_set_b': job.sp['b'] = 2\n"
        "    print('ok|')\n"
        "except BaseException as e:\n"
        "    print('operation|%s: %s' % (type(e).__name__, str(e)[:200]))\n"
    )
    r = subprocess.run([sys.executable, "-c", code, what], input=blob, capture_output=True, env=dict(os.environ), timeout=120)
    out = r.stdout.decode(errors="replace").strip().splitlines()
    if r.returncode != 0 or not out:
        return "operation", "ProcessError: " + r.stderr.decode(errors="replace")[-300:]
    status, _, detail = out[-1].partition("|")
    return status, detail
