"""known_findings.json: committed, read-only at run time.

Entry: {"property": "C06", "id": "KF-C06-1", "status": "open"|"fixed",
        "signature": {"kind": "...", <param>: <value>...}, "what": "...", "example": {...}, "commit": "..."}

An *open* entry suppresses exactly the violations whose classifier signature has the
same kind and carries every parameter listed in the entry with an equal value.  A
*fixed* entry suppresses nothing.
"""
import json
import os


class Findings:
    def __init__(self, path, prop):
        self.entries = []
        if os.path.exists(path):
            with open(path) as f:
                for e in json.load(f):
                    if e.get("property") == prop:
                        self.entries.append(e)
        self.counts = {e["id"]: 0 for e in self.entries if e.get("status") == "open"}

    def match(self, violation):
        sig = violation.get("sig") or {}
        for e in self.entries:
            if e.get("status") != "open":
                continue
            want = e.get("signature", {})
            if all(sig.get(k) == v for k, v in want.items()):
                self.counts[e["id"]] += 1
                return e
        return None

    def observed_counts(self):
        return dict(self.counts)

    def lines(self):
        out = []
        for e in self.entries:
            if e.get("status") == "open":
                out.append(
                    f"KNOWN-FINDING: property={e['property']} {e['id']} {e['what']} "
                    f"(observed {self.counts[e['id']]}x in this run)"
                )
        return out
