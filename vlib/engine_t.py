"""Engine T: exhaustive, preemption-bounded exploration of the thread interleavings of a thread pool inside one process.

signac parallelises with ``multiprocessing.pool.ThreadPool`` (``sync_projects(parallel=...)``).  The pool is replaced by
:class:`ControlledPool`: every task runs in a real thread executing the real code, but only one thread runs at a time
and it hands control back to the scheduler before every operating-system call (``posix.*`` functions and ``open``,
seen through ``sys.setprofile`` 'c_call' events - no name inside signac is patched).  A schedule is the list of choices
taken at those points; :func:`explore` enumerates every schedule with at most ``bound`` preemptions (CHESS-style
iterative context bounding: switching away from a thread that could have continued costs one preemption, choosing
among threads when the running one has finished or not started is free), re-executing the caller's ``run_once`` for
each.  Replaying a prefix must reproduce the recorded enabled sets, otherwise HarnessError.
"""
import os
import pickle
import select
import signal
import sys
import threading
import time
import traceback

WAIT = 20.0  # seconds the scheduler waits for a granted thread to reach its next point


class HarnessError(BaseException):
    """Not an ``Exception``: code under test (and harness code that records the outcome of a call) must not swallow it."""


_ACTIVE = None  # the Scheduler of the execution in progress (one at a time per process)
_REAL_RLOCK = threading.RLock
_REAL_LOCK = threading.Lock
_RLOCK_TYPE = (type(threading.RLock()), type(threading.Lock()))


class CoopRLock:
    """Re-entrant lock that the scheduler can see.  A controlled thread that finds it held by another thread does not
    block in the kernel (the holder is suspended at a scheduling point and could never release it): it reports itself
    blocked, hands control back, and is only enabled again once the lock is free - the CHESS treatment of a lock
    acquisition.  Threads the scheduler does not control (the pool's owner) use the real lock underneath."""

    def __init__(self, real=None):
        self._real = real if real is not None else _REAL_RLOCK()
        self._owner = None
        self._count = 0

    def acquire(self, blocking=True, timeout=-1):
        me = threading.get_ident()
        sched = _ACTIVE
        t = sched.by_ident.get(me) if sched is not None else None
        if t is not None and t.state == "running":
            while self._owner is not None and self._owner != me:
                if not blocking:
                    return False
                prof = sys.getprofile()
                sys.setprofile(None)
                t.blocked_on = self
                t.label = "lock"
                sched.back.release()
                t.go.acquire()
                t.blocked_on = None
                sys.setprofile(prof)
        ok = self._real.acquire(blocking, timeout)
        if ok:
            self._owner = me
            self._count += 1
        return ok

    def release(self):
        if self._owner != threading.get_ident():
            raise RuntimeError("cannot release un-acquired lock")
        self._count -= 1
        if self._count == 0:
            self._owner = None
        self._real.release()

    def __enter__(self):
        return self.acquire()

    def __exit__(self, *a):
        self.release()

    def free_for(self, ident):
        return self._owner is None or self._owner == ident


def own_locks(prefixes=("signac", "synced_collections")):
    """Replace, in every loaded module of the code under test, the names bound to threading's ``RLock`` / ``Lock``
    factories and every module- or class-level lock object / table of lock objects by CoopRLock.  Found by type, not by name.  Meant to be called
    in a process that is thrown away afterwards (see isolated())."""
    n = 0
    for name, mod in list(sys.modules.items()):
        if mod is None or not any(name == p or name.startswith(p + ".") for p in prefixes):
            continue
        for k, v in list(vars(mod).items()):
            if v is _REAL_RLOCK:
                setattr(mod, k, CoopRLock)
                n += 1
            elif v is _REAL_LOCK:
                # a plain lock: same visibility to the scheduler; a thread re-acquiring its own plain lock blocks for real
                # (as it would without the harness) and ends as a timed-out evaluation
                setattr(mod, k, lambda: CoopRLock(_REAL_LOCK()))
                n += 1
            elif isinstance(v, _RLOCK_TYPE):
                setattr(mod, k, CoopRLock(v))
                n += 1
            elif isinstance(v, type) and getattr(v, "__module__", None) == name:
                for a, x in list(vars(v).items()):
                    if isinstance(x, _RLOCK_TYPE):
                        setattr(v, a, CoopRLock(x))
                        n += 1
                    elif isinstance(x, dict) and x and all(isinstance(y, _RLOCK_TYPE) for y in x.values()):
                        for kk in list(x):
                            x[kk] = CoopRLock(x[kk])
                        n += 1
    return n


def isolated(fn, *args, timeout=1500.0):
    """fn(*args) in a forked child (result pickled back).  The child owns the locks of the code under test
    (own_locks); whatever threads an aborted execution leaves parked die with it.  A child that does not finish within
    ``timeout`` seconds is killed and reported as HarnessError - a check never hangs."""
    from .engine_i import raised_inside_signac
    r, w = os.pipe()
    pid = os.fork()
    if pid == 0:
        try:
            os.close(r)
            try:
                own_locks()
                out = ("ok", fn(*args))
            except BaseException as e:  # noqa
                out = ("err", raised_inside_signac(e), type(e).__name__, str(e)[:2000], traceback.format_exc()[-3000:],
                       isinstance(e, HarnessError))
            try:
                data = pickle.dumps(out)
            except BaseException as e:  # noqa
                data = pickle.dumps(("err", None, type(e).__name__, "result not picklable: " + str(e)[:500], "", True))
            with os.fdopen(w, "wb") as f:
                f.write(data)
        finally:
            os._exit(0)
    os.close(w)
    chunks = []
    deadline = time.monotonic() + timeout
    try:
        while True:
            left = deadline - time.monotonic()
            if left <= 0 or not select.select([r], [], [], left)[0]:
                os.kill(pid, signal.SIGKILL)
                raise HarnessError(f"isolated evaluation did not finish within {timeout}s (killed)")
            b = os.read(r, 1 << 16)
            if not b:
                break
            chunks.append(b)
    finally:
        os.close(r)
        os.waitpid(pid, 0)
    if not chunks:
        raise HarnessError("isolated evaluation died without a result")
    out = pickle.loads(b"".join(chunks))
    if out[0] == "ok":
        return out[1]
    _, where, tname, msg, tb, harness = out
    if harness or where is None:
        raise HarnessError(f"{tname}: {msg}\n{tb}")
    exc = type(tname, (Exception,), {})(msg)
    exc._where_inside_signac = where
    raise exc


_POINT_NAMES = {"open", "mkdir", "rmdir", "unlink", "remove", "rename", "replace", "utime", "chmod", "symlink", "link",
                "truncate", "ftruncate", "sendfile", "copy_file_range", "write", "scandir", "listdir", "stat", "lstat"}


class SerialPool:
    """Stand-in for multiprocessing.pool.ThreadPool: same results, tasks run in order in the calling thread."""

    def __init__(self, *a, **k):
        pass

    def __enter__(self):
        return self

    def __exit__(self, *a):
        return False

    def map(self, fn, it, chunksize=None):
        return [fn(x) for x in it]

    def imap(self, fn, it, chunksize=None):
        return (fn(x) for x in it)

    imap_unordered = imap

    def starmap(self, fn, it, chunksize=None):
        return [fn(*x) for x in it]

    def close(self):
        pass

    def join(self):
        pass

    def terminate(self):
        pass


class _Task:
    __slots__ = ("idx", "item", "go", "state", "result", "exc", "thread", "label", "npoints", "blocked_on", "done_seq")

    def __init__(self, idx, item):
        self.idx, self.item = idx, item
        self.go = threading.Semaphore(0)
        self.state = "new"  # new -> running -> done
        self.result = self.exc = self.thread = None
        self.label = "start"
        self.npoints = 0
        self.blocked_on = None
        self.done_seq = None


class Scheduler:
    """One execution: replays ``prefix`` then always takes choice 0 (keep running the current thread)."""

    def __init__(self, prefix=(), mutating_only=True):
        self.prefix = list(prefix)
        self.points = []  # (enabled tuple in canonical order, chosen position, running_still_enabled)
        self.back = threading.Semaphore(0)
        self.tasks = []
        self.by_ident = {}
        self.pools = 0
        self.ndone = 0
        self.mutating_only = mutating_only
        # True: no read-only call is a scheduling point; "listing": directory listings are, stat calls are not; False: all are
        self.reads = {"stat", "lstat"} if mutating_only == "listing" else {"stat", "lstat", "scandir", "listdir"}

    # ---- called inside worker threads
    def _profile(self, frame, event, arg):
        if event != "c_call":
            return
        name = getattr(arg, "__name__", "")
        if name not in _POINT_NAMES:
            return
        mod = getattr(arg, "__module__", None)
        if mod not in ("posix", "io", "_io", "os", "nt"):
            return
        if self.mutating_only and name in self.reads:
            return
        t = self.by_ident.get(threading.get_ident())
        if t is None or t.state != "running":
            return
        t.label = name
        t.npoints += 1
        sys.setprofile(None)
        self.back.release()
        t.go.acquire()
        sys.setprofile(self._profile)

    def _body(self, t, fn):
        self.by_ident[threading.get_ident()] = t
        t.go.acquire()
        t.state = "running"
        sys.setprofile(self._profile)
        try:
            t.result = fn(t.item)
        except BaseException as e:  # noqa
            t.exc = e
        finally:
            sys.setprofile(None)
            self.ndone += 1
            t.done_seq = self.ndone
            t.state = "done"
            self.back.release()

    # ---- called in the thread that owns the pool
    def run_pool(self, fn, items, limit):
        global _ACTIVE
        self.pools += 1
        _ACTIVE = self
        try:
            return self._run_pool(fn, items, limit)
        finally:
            _ACTIVE = None

    def _run_pool(self, fn, items, limit):
        base = len(self.tasks)
        tasks = [_Task(base + i, it) for i, it in enumerate(items)]
        self.tasks += tasks
        current = None
        while any(t.state != "done" for t in tasks):
            started = [t for t in tasks if t.state == "running"]
            fresh = [t for t in tasks if t.state == "new"]
            # a thread waiting for a lock that another thread holds is not enabled
            enabled = [t for t in started if t.blocked_on is None or t.blocked_on.free_for(t.thread.ident)]
            if fresh and (limit is None or len(started) < limit):
                enabled.append(fresh[0])  # tasks are handed out in order
            if not enabled:
                raise HarnessError("deadlock: no enabled thread although tasks remain "
                                   f"({[(t.idx, t.state, t.label) for t in tasks]})")
            enabled.sort(key=lambda t: (t is not current, t.idx))
            still = current is not None and current in enabled
            i = len(self.points)
            if i < len(self.prefix):
                k = self.prefix[i]
                if k >= len(enabled):
                    raise HarnessError(f"schedule prefix diverged at point {i}: choice {k} of {len(enabled)} enabled")
            else:
                k = 0
            self.points.append((tuple(t.idx for t in enabled), k, still))
            t = enabled[k]
            if t.state == "new":
                t.thread = threading.Thread(target=self._body, args=(t, fn), daemon=True)
                t.thread.start()
            t.go.release()
            if not self.back.acquire(timeout=WAIT):
                raise HarnessError(f"thread of task {t.idx} did not reach a scheduling point within {WAIT}s (blocked on a real lock?)")
            current = t if t.state != "done" else None
        for t in tasks:
            if t.thread is not None:
                t.thread.join(WAIT)
        return tasks

    @property
    def choices(self):
        return [p[1] for p in self.points]


def make_pool_class(sched):
    class ControlledPool:
        """Stand-in for multiprocessing.pool.ThreadPool whose threads are driven by ``sched``."""

        def __init__(self, processes=None, *a, **k):
            self.limit = processes

        def __enter__(self):
            return self

        def __exit__(self, *a):
            return False

        def _run(self, fn, it, completion_order=False):
            tasks = sched.run_pool(fn, list(it), self.limit)
            if completion_order:  # imap_unordered hands results out as the tasks finish
                tasks = sorted(tasks, key=lambda t: t.done_seq)
            for t in tasks:
                if t.exc is not None:
                    raise t.exc  # like pool.imap: the first failing task (in input order) re-raises in the caller
                yield t.result

        def imap(self, fn, it, chunksize=None):
            return self._run(fn, it)

        def map(self, fn, it, chunksize=None):
            return list(self._run(fn, it))

        def imap_unordered(self, fn, it, chunksize=None):
            return self._run(fn, it, completion_order=True)

        def starmap(self, fn, it, chunksize=None):
            return list(self._run(lambda a: fn(*a), it))

        def close(self):
            pass

        def join(self):
            pass

        def terminate(self):
            pass
    return ControlledPool


def explore(run_once, bound, max_schedules=None, mutating_only=True):
    """run_once(sched) -> observation (hashable / comparable); executes the code under ``sched``.

    Returns dict(schedules, points_max, observations {obs: first schedule}, capped, preemption_bound, pools_seen).
    """
    stack = [[]]
    seen_obs = {}
    n = 0
    points_max = 0
    pools_seen = 0
    capped = False
    while stack:
        prefix = stack.pop()
        s = Scheduler(prefix, mutating_only)
        obs = run_once(s)
        n += 1
        pools_seen = max(pools_seen, s.pools)
        points_max = max(points_max, len(s.points))
        if s.choices[:len(prefix)] != prefix:
            raise HarnessError(f"replayed prefix {prefix} but executed {s.choices[:len(prefix)]}")
        seen_obs.setdefault(obs, list(s.choices))
        if max_schedules is not None and n >= max_schedules:
            capped = bool(stack)
            break
        # preemptions used before each point
        used = 0
        cost_before = []
        for (enabled, k, still) in s.points:
            cost_before.append(used)
            if still and k != 0:
                used += 1
        for i in range(len(prefix), len(s.points)):
            enabled, k, still = s.points[i]
            for alt in range(1, len(enabled)):
                c = cost_before[i] + (1 if still else 0)
                if c > bound:
                    continue
                stack.append(s.choices[:i] + [alt])
    return {"schedules": n, "points_max": points_max, "observations": seen_obs, "capped": capped,
            "preemption_bound": bound, "pools_seen": pools_seen}
