"""Engine T: exhaustive, preemption-bounded exploration of the thread interleavings of a thread pool inside one process.

signac parallelises with ``multiprocessing.pool.ThreadPool`` (``sync_projects(parallel=...)``).  The pool is replaced by
:class:`ControlledPool`: every task runs in a real thread executing the real code, but only one thread runs at a time
and it hands control back to the scheduler before every operating-system call (``posix.*`` functions and ``open``,
seen through ``sys.setprofile`` 'c_call' events - no name inside signac is patched).  A schedule is the list of choices
taken at those points; :func:`explore` enumerates every schedule with at most ``bound`` preemptions (CHESS-style
iterative context bounding: switching away from a thread that could have continued costs one preemption, choosing
among threads when the running one has finished or not started is free), re-executing the caller's ``run_once`` for
each.  Replaying a prefix must reproduce the recorded enabled sets, otherwise HarnessError.
"""
import sys
import threading

WAIT = 20.0  # seconds the scheduler waits for a granted thread to reach its next point


class HarnessError(Exception):
    pass


_POINT_NAMES = {"open", "mkdir", "rmdir", "unlink", "remove", "rename", "replace", "utime", "chmod", "symlink", "link",
                "truncate", "ftruncate", "sendfile", "copy_file_range", "write", "scandir", "listdir", "stat", "lstat"}


class SerialPool:
    """Stand-in for multiprocessing.pool.ThreadPool: same results, tasks run in order in the calling thread."""

    def __init__(self, *a, **k):
        pass

    def __enter__(self):
        return self

    def __exit__(self, *a):
        return False

    def map(self, fn, it, chunksize=None):
        return [fn(x) for x in it]

    def imap(self, fn, it, chunksize=None):
        return (fn(x) for x in it)

    imap_unordered = imap

    def starmap(self, fn, it, chunksize=None):
        return [fn(*x) for x in it]

    def close(self):
        pass

    def join(self):
        pass

    def terminate(self):
        pass


class _Task:
    __slots__ = ("idx", "item", "go", "state", "result", "exc", "thread", "label", "npoints")

    def __init__(self, idx, item):
        self.idx, self.item = idx, item
        self.go = threading.Semaphore(0)
        self.state = "new"  # new -> running -> done
        self.result = self.exc = self.thread = None
        self.label = "start"
        self.npoints = 0


class Scheduler:
    """One execution: replays ``prefix`` then always takes choice 0 (keep running the current thread)."""

    def __init__(self, prefix=(), mutating_only=True):
        self.prefix = list(prefix)
        self.points = []  # (enabled tuple in canonical order, chosen position, running_still_enabled)
        self.back = threading.Semaphore(0)
        self.tasks = []
        self.by_ident = {}
        self.pools = 0
        self.mutating_only = mutating_only
        self.reads = {"stat", "lstat", "scandir", "listdir"}

    # ---- called inside worker threads
    def _profile(self, frame, event, arg):
        if event != "c_call":
            return
        name = getattr(arg, "__name__", "")
        if name not in _POINT_NAMES:
            return
        mod = getattr(arg, "__module__", None)
        if mod not in ("posix", "io", "_io", "os", "nt"):
            return
        if self.mutating_only and name in self.reads:
            return
        t = self.by_ident.get(threading.get_ident())
        if t is None or t.state != "running":
            return
        t.label = name
        t.npoints += 1
        sys.setprofile(None)
        self.back.release()
        t.go.acquire()
        sys.setprofile(self._profile)

    def _body(self, t, fn):
        self.by_ident[threading.get_ident()] = t
        t.go.acquire()
        t.state = "running"
        sys.setprofile(self._profile)
        try:
            t.result = fn(t.item)
        except BaseException as e:  # noqa
            t.exc = e
        finally:
            sys.setprofile(None)
            t.state = "done"
            self.back.release()

    # ---- called in the thread that owns the pool
    def run_pool(self, fn, items, limit):
        self.pools += 1
        base = len(self.tasks)
        tasks = [_Task(base + i, it) for i, it in enumerate(items)]
        self.tasks += tasks
        current = None
        while any(t.state != "done" for t in tasks):
            started = [t for t in tasks if t.state == "running"]
            fresh = [t for t in tasks if t.state == "new"]
            enabled = list(started)
            if fresh and (limit is None or len(started) < limit):
                enabled.append(fresh[0])  # tasks are handed out in order
            if not enabled:
                raise HarnessError("no enabled thread although tasks remain")
            enabled.sort(key=lambda t: (t is not current, t.idx))
            still = current is not None and current in enabled
            i = len(self.points)
            if i < len(self.prefix):
                k = self.prefix[i]
                if k >= len(enabled):
                    raise HarnessError(f"schedule prefix diverged at point {i}: choice {k} of {len(enabled)} enabled")
            else:
                k = 0
            self.points.append((tuple(t.idx for t in enabled), k, still))
            t = enabled[k]
            if t.state == "new":
                t.thread = threading.Thread(target=self._body, args=(t, fn), daemon=True)
                t.thread.start()
            t.go.release()
            if not self.back.acquire(timeout=WAIT):
                raise HarnessError(f"thread of task {t.idx} did not reach a scheduling point within {WAIT}s (blocked on a real lock?)")
            current = t if t.state != "done" else None
        for t in tasks:
            if t.thread is not None:
                t.thread.join(WAIT)
        return tasks

    @property
    def choices(self):
        return [p[1] for p in self.points]


def make_pool_class(sched):
    class ControlledPool:
        """Stand-in for multiprocessing.pool.ThreadPool whose threads are driven by ``sched``."""

        def __init__(self, processes=None, *a, **k):
            self.limit = processes

        def __enter__(self):
            return self

        def __exit__(self, *a):
            return False

        def _run(self, fn, it):
            tasks = sched.run_pool(fn, list(it), self.limit)
            for t in tasks:
                if t.exc is not None:
                    raise t.exc  # like pool.imap: the first failing task (in input order) re-raises in the caller
                yield t.result

        def imap(self, fn, it, chunksize=None):
            return self._run(fn, it)

        def map(self, fn, it, chunksize=None):
            return list(self._run(fn, it))

        def imap_unordered(self, fn, it, chunksize=None):
            return self._run(fn, it)

        def starmap(self, fn, it, chunksize=None):
            return list(self._run(lambda a: fn(*a), it))

        def close(self):
            pass

        def join(self):
            pass

        def terminate(self):
            pass
    return ControlledPool


def explore(run_once, bound, max_schedules=None, mutating_only=True):
    """run_once(sched) -> observation (hashable / comparable); executes the code under ``sched``.

    Returns dict(schedules, points_max, observations {obs: first schedule}, capped, preemption_bound, pools_seen).
    """
    stack = [[]]
    seen_obs = {}
    n = 0
    points_max = 0
    pools_seen = 0
    capped = False
    while stack:
        prefix = stack.pop()
        s = Scheduler(prefix, mutating_only)
        obs = run_once(s)
        n += 1
        pools_seen = max(pools_seen, s.pools)
        points_max = max(points_max, len(s.points))
        if s.choices[:len(prefix)] != prefix:
            raise HarnessError(f"replayed prefix {prefix} but executed {s.choices[:len(prefix)]}")
        seen_obs.setdefault(obs, list(s.choices))
        if max_schedules is not None and n >= max_schedules:
            capped = bool(stack)
            break
        # preemptions used before each point
        used = 0
        cost_before = []
        for (enabled, k, still) in s.points:
            cost_before.append(used)
            if still and k != 0:
                used += 1
        for i in range(len(prefix), len(s.points)):
            enabled, k, still = s.points[i]
            for alt in range(1, len(enabled)):
                c = cost_before[i] + (1 if still else 0)
                if c > bound:
                    continue
                stack.append(s.choices[:i] + [alt])
    return {"schedules": n, "points_max": points_max, "observations": seen_obs, "capped": capped,
            "preemption_bound": bound, "pools_seen": pools_seen}
