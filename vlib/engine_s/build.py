"""Build the LD_PRELOAD shim from sources in /verif (gcc only)."""
import os
import subprocess

HERE = os.path.dirname(os.path.abspath(__file__))
SRC = os.path.join(HERE, "shim", "fsx_shim.c")
OUT_DIR = os.path.join(os.path.dirname(os.path.dirname(HERE)), "build")
OUT = os.path.join(OUT_DIR, "fsx_shim.so")


def build(verbose=False):
    if not os.path.exists(SRC):
        if verbose:
            print("no shim source yet; nothing to build")
        return 0
    os.makedirs(OUT_DIR, exist_ok=True)
    if os.path.exists(OUT) and os.path.getmtime(OUT) >= os.path.getmtime(SRC):
        if verbose:
            print("shim up to date:", OUT)
        return 0
    cmd = ["gcc", "-O2", "-fPIC", "-shared", "-Wall", "-o", OUT + ".tmp", SRC, "-ldl"]
    r = subprocess.run(cmd, capture_output=True, text=True)
    if r.returncode != 0:
        print(r.stdout, r.stderr)
        return 2
    os.replace(OUT + ".tmp", OUT)
    if verbose:
        print("built", OUT)
    return 0


def ensure():
    if build() != 0 or not os.path.exists(OUT):
        raise RuntimeError("cannot build fsx_shim.so")
    return OUT
