"""Engine S controller: runs actor bodies (plain Python functions calling the public signac API) in
forked children whose file-system calls are stepped one at a time through the LD_PRELOAD shim.

Drivers built on `Execution`:
  record()          one actor, every call granted: the reference trace
  crash / torn      replay the trace and kill the process before call i / inside write i
  fault             replay the trace and make call i fail with an errno
  interleave()      depth-first search over schedules of 2-3 actors with state caching
Every replayed prefix is compared call for call with the recorded trace (divergence = hard error).
"""
import ctypes
import errno as _errno
import hashlib
import os
import pickle
import select
import shutil
import signal
import socket
import sys
import traceback

from . import build

MUTATING = {"open_w", "write", "close", "rename", "mkdir", "rmdir", "unlink", "symlink", "link", "truncate",
            "ftruncate", "sendfile", "chmod", "utimens", "fsync"}
READING = {"open_r", "open_d", "stat", "lstat", "opendir"}
ERRNOS = {"EIO": _errno.EIO, "ENOSPC": _errno.ENOSPC, "EACCES": _errno.EACCES, "EXDEV": _errno.EXDEV, "EROFS": _errno.EROFS}
TIMEOUT = 120.0


class HarnessError(Exception):
    pass


def ensure_preloaded():
    """Re-exec the interpreter with LD_PRELOAD=<shim> unless the shim is already loaded."""
    so = build.ensure()
    if so in os.environ.get("LD_PRELOAD", "").split(":"):
        return so
    env = dict(os.environ)
    env["LD_PRELOAD"] = so + (":" + env["LD_PRELOAD"] if env.get("LD_PRELOAD") else "")
    env["FSX_REEXEC"] = "1"
    sys.stdout.flush()
    sys.stderr.flush()
    os.execve(sys.executable, list(sys.orig_argv), env)


_LIB = None


def lib():
    global _LIB
    if _LIB is None:
        _LIB = ctypes.CDLL(build.ensure())
        _LIB.fsx_activate.argtypes = [ctypes.c_int, ctypes.c_int, ctypes.c_char_p]
        _LIB.fsx_mark.argtypes = [ctypes.c_char_p]
    return _LIB


def mark(text):
    """Window marker, called from actor bodies."""
    lib().fsx_mark(text.encode())


class _SerialPool:
    """Replacement of multiprocessing.pool.ThreadPool inside actors: same results, one thread."""

    def __init__(self, *a, **k):
        pass

    def __enter__(self):
        return self

    def __exit__(self, *a):
        return False

    def map(self, fn, it, chunksize=None):
        return [fn(x) for x in it]

    def imap(self, fn, it, chunksize=None):
        return (fn(x) for x in it)

    imap_unordered = imap

    def starmap(self, fn, it, chunksize=None):
        return [fn(*x) for x in it]

    def close(self):
        pass

    def join(self):
        pass

    def terminate(self):
        pass


def install_child_patches(actor):
    import uuid

    counter = [0]

    def uuid4():
        counter[0] += 1
        return uuid.UUID(int=((actor + 1) << 96) + counter[0])
    uuid.uuid4 = uuid4
    # gzip stamps the current time into every header it writes: a constant keeps file contents (and with them the explored
    # states) identical between executions of one schedule
    try:
        import gzip
        import types
        gzip.time = types.SimpleNamespace(time=lambda: 1.0e9)
    except Exception:
        pass
    try:
        import signac.project as sp
        import signac.sync as ss
        sp.ThreadPool = _SerialPool
        if hasattr(ss, "ThreadPool"):
            ss.ThreadPool = _SerialPool
    except Exception:
        pass


def tree_state(root):
    """Canonical disk tree: sorted tuple of (relpath, kind, sha1(content) | link target)."""
    out = []
    stack = [""]
    while stack:
        rel = stack.pop()
        full = os.path.join(root, rel) if rel else root
        try:
            names = os.listdir(full)
        except OSError:
            continue
        for n in names:
            r = rel + "/" + n if rel else n
            p = os.path.join(root, r)
            try:
                st = os.lstat(p)
            except OSError:
                continue
            import stat as _s
            if _s.S_ISLNK(st.st_mode):
                out.append((r, "l", os.readlink(p)))
            elif _s.S_ISDIR(st.st_mode):
                out.append((r, "d", ""))
                stack.append(r)
            else:
                try:
                    with open(p, "rb") as f:
                        out.append((r, "f", hashlib.sha1(f.read()).hexdigest()))
                except OSError:
                    out.append((r, "f", "?"))
    out.sort()
    return tuple(out)


class Actor:
    def __init__(self, idx, pid, sock, res_r):
        self.idx, self.pid, self.sock, self.res_r = idx, pid, sock, res_r
        self.buf = b""
        self.pending = None  # dict(seq, op, flags, nbytes, path, path2) when blocked at a call
        self.done = False
        self.outcome = None
        self.exit_status = None
        self.trace = []  # list of (op, relpath, relpath2, nbytes, ret, errno, decision)
        self.steps = 0
        self.obs = hashlib.sha1()
        self.in_window = False
        self.window = [None, None]  # step indices of BEGIN / END markers
        self.window_clock = [None, None]  # global clock at the BEGIN / END markers
        self.begin_tree = None
        self.end_tree = None


class Execution:
    def __init__(self, root, bodies, ctx=None, written=None):
        self.root = root
        self.bodies = bodies
        self.ctx = ctx or {}
        # `written`: set of relative paths some actor may mutate.  Observing calls on paths that nobody mutates
        # commute with everything and are granted immediately (no scheduling point); validated at run time.
        self.written = written
        self.actors = []
        self._tree = None
        self.clock = 0  # number of calls granted so far (all actors)

    # -------------------------------------------------------------- process management
    def start(self):
        for i, body in enumerate(self.bodies):
            psock, csock = socket.socketpair(socket.AF_UNIX, socket.SOCK_STREAM)
            r, w = os.pipe()
            sys.stdout.flush()
            sys.stderr.flush()
            pid = os.fork()
            if pid == 0:
                code = 0
                try:
                    psock.close()
                    os.close(r)
                    for a in self.actors:  # ends of other actors' channels are not ours
                        try:
                            a.sock.close()
                            os.close(a.res_r)
                        except OSError:
                            pass
                    signal.signal(signal.SIGINT, signal.SIG_IGN)
                    install_child_patches(i)
                    os.set_inheritable(csock.fileno(), True)
                    lib().fsx_activate(csock.fileno(), i, self.root.encode())
                    try:
                        ret = body(self.ctx)
                        outcome = ("ok", ret)
                    except BaseException as e:  # noqa
                        outcome = ("exc", type(e).__name__, str(e)[:500], getattr(e, "errno", None),
                                   traceback.format_exc()[-1500:])
                    lib().fsx_deactivate()
                    try:
                        os.write(w, pickle.dumps(outcome))
                    except Exception:
                        os.write(w, pickle.dumps(("exc", "HarnessPickleError", repr(outcome)[:300], None, "")))
                except BaseException:  # noqa
                    code = 3
                finally:
                    os._exit(code)
            csock.close()
            os.close(w)
            self.actors.append(Actor(i, pid, psock, r))
        for a in self.actors:
            self._advance(a)
        return self

    def _readline(self, a):
        while b"\n" not in a.buf:
            rl, _, _ = select.select([a.sock], [], [], TIMEOUT)
            if not rl:
                raise HarnessError(f"actor {a.idx} silent for {TIMEOUT}s (hang / deadlock)")
            chunk = a.sock.recv(65536)
            if not chunk:
                return None
            a.buf += chunk
        line, a.buf = a.buf.split(b"\n", 1)
        return line.decode("utf-8", "surrogateescape")

    def _rel(self, p):
        if not p:
            return ""
        if p == self.root:
            return "."
        if p.startswith(self.root + "/"):
            return p[len(self.root) + 1:]
        return p

    def _advance(self, a):
        """Read until the actor is blocked at its next call, or has exited."""
        while True:
            line = self._readline(a)
            if line is None:
                self._reap(a)
                return
            if line.startswith("M "):
                text = line[2:]
                if text == "BEGIN":
                    a.window[0] = a.steps
                    a.window_clock[0] = self.clock
                    a.in_window = True
                    a.begin_tree = tree_state(self.root)
                elif text == "END":
                    a.window[1] = a.steps
                    a.window_clock[1] = self.clock
                    a.in_window = False
                    a.end_tree = tree_state(self.root)
                a.sock.sendall(b"G\n")
                continue
            if line.startswith("Q "):
                head, _, paths = line.partition("\t")
                parts = head.split(" ", 5)
                a.pending = {"seq": int(parts[1]), "op": parts[2], "flags": int(parts[3]), "nbytes": int(parts[4]),
                             "path": self._rel(parts[5]), "path2": self._rel(paths), "in_window": a.in_window}
                if self.written is not None:
                    op = a.pending["op"]
                    if op in MUTATING and op != "close":
                        for pth in (a.pending["path"], a.pending["path2"]):
                            if pth and not pth.startswith("/") and not self._touched(pth):
                                raise HarnessError(f"reduction unsound: actor {a.idx} mutates {pth}, which was assumed immutable")
                    if (op in READING or op == "close") and not self._touched(a.pending["path"]):
                        self._auto_grant(a)
                        continue
                return
            raise HarnessError(f"unexpected line from actor {a.idx}: {line!r}")

    def _touched(self, path):
        for w in self.written:
            if path == w or path.startswith(w + "/") or w.startswith(path + "/") or path == ".":
                return True
        return False

    def _auto_grant(self, a):
        req = a.pending
        a.sock.sendall(b"G\n")
        line = self._readline(a)
        if line is None or not line.startswith("R "):
            raise HarnessError(f"actor {a.idx}: bad reply to an auto-granted call: {line!r}")
        _, ret, err = line.split(" ")
        a.trace.append({"op": req["op"], "path": req["path"], "path2": req["path2"], "nbytes": req["nbytes"],
                        "flags": req["flags"], "decision": "G(auto)", "in_window": req["in_window"], "ret": int(ret),
                        "errno": int(err)})
        a.obs.update(f"{req['op']}|{req['path']}|auto|{'ok' if int(ret) >= 0 else 'E' + err}\n".encode())
        a.auto = getattr(a, "auto", 0) + 1
        a.pending = None

    def _reap(self, a):
        a.done = True
        a.pending = None
        data = b""
        while True:
            chunk = os.read(a.res_r, 65536)
            if not chunk:
                break
            data += chunk
        os.close(a.res_r)
        a.sock.close()
        _, status = os.waitpid(a.pid, 0)
        a.exit_status = status
        if data:
            try:
                a.outcome = pickle.loads(data)
            except Exception as e:  # noqa
                a.outcome = ("exc", "HarnessUnpickleError", repr(e), None, "")
        else:
            code = os.waitstatus_to_exitcode(status)
            a.outcome = ("died", code)

    # -------------------------------------------------------------- stepping
    def enabled(self):
        return [a.idx for a in self.actors if not a.done]

    def _observation(self, a):
        """What the pending call of actor a can observe of the disk (for the per-actor digest)."""
        req = a.pending
        op = req["op"]
        if op in ("open_r",):
            p = os.path.join(self.root, req["path"])
            try:
                with open(p, "rb") as f:
                    return hashlib.sha1(f.read()).hexdigest()
            except IsADirectoryError:
                return "dir"
            except OSError as e:
                return f"E{e.errno}"
        if op in ("stat", "lstat"):
            p = os.path.join(self.root, req["path"])
            try:
                st = os.lstat(p) if op == "lstat" else os.stat(p)
                return f"{st.st_mode & 0o170000:o}:{st.st_size if not os.path.isdir(p) else 0}"
            except OSError as e:
                return f"E{e.errno}"
        if op in ("opendir", "open_d"):
            p = os.path.join(self.root, req["path"])
            try:
                return ",".join(sorted(os.listdir(p)))
            except OSError as e:
                return f"E{e.errno}"
        return ""

    def grant(self, idx, decision="G"):
        """Let actor idx perform (or fail / die at) its pending call. Returns the trace record."""
        a = self.actors[idx]
        req = a.pending
        if req is None:
            raise HarnessError(f"actor {idx} has no pending call")
        obs = self._observation(a) if decision == "G" else ""
        a.sock.sendall((decision + "\n").encode())
        rec = {"op": req["op"], "path": req["path"], "path2": req["path2"], "nbytes": req["nbytes"],
               "flags": req["flags"], "decision": decision, "in_window": req["in_window"], "ret": None, "errno": 0}
        if req["op"] not in READING or decision != "G":
            self._tree = None
        self.clock += 1
        if decision[0] in ("C", "T"):
            line = self._readline(a)
            if line is not None:
                raise HarnessError(f"actor {idx} survived a crash decision: {line!r}")
            self._reap(a)
            a.trace.append(rec)
            return rec
        line = self._readline(a)
        if line is None:
            self._reap(a)
            raise HarnessError(f"actor {idx} died while performing {req}")
        if not line.startswith("R "):
            raise HarnessError(f"expected result line from actor {idx}, got {line!r}")
        _, ret, err = line.split(" ")
        rec["ret"], rec["errno"] = int(ret), int(err)
        a.trace.append(rec)
        a.steps += 1
        a.obs.update(f"{req['op']}|{req['path']}|{req['path2']}|{req['nbytes']}|{decision}|"
                     f"{'ok' if int(ret) >= 0 else 'E%s' % err}|{obs}\n".encode())
        self._advance(a)
        return rec

    def run_all(self, idx=0, decide=None):
        """Grant every call of one actor until it exits. decide(step, request) -> decision string."""
        a = self.actors[idx]
        step = 0
        while not a.done:
            d = decide(step, a.pending) if decide else "G"
            self.grant(idx, d)
            step += 1
        return a

    def tree(self):
        if self._tree is None:
            self._tree = tree_state(self.root)
        return self._tree

    def state(self, extra=()):
        h = hashlib.sha1(repr(self.tree()).encode())
        for a in self.actors:
            oc = ""
            if a.done and a.outcome:
                # exception texts quote absolute scratch paths: keep the class (and errno) only
                oc = repr(a.outcome[:2]) if a.outcome[0] != "exc" else repr((a.outcome[1], a.outcome[3]))
            h.update(f"|{a.idx}:{a.steps}:{a.done}:{a.obs.hexdigest()}:{oc}".encode())
            if a.pending:
                # descriptor numbers (flags of close/write) and sequence numbers are process-local
                h.update(repr([a.pending[k] for k in ("op", "path", "path2", "nbytes", "in_window")]).encode())
        h.update(repr(extra).encode())
        return h.hexdigest()

    def kill(self):
        for a in self.actors:
            if not a.done:
                try:
                    os.kill(a.pid, signal.SIGKILL)
                except OSError:
                    pass
                try:
                    a.sock.close()
                    os.close(a.res_r)
                except OSError:
                    pass
                try:
                    os.waitpid(a.pid, 0)
                except OSError:
                    pass
                a.done = True


# ------------------------------------------------------------------ scenario helpers
def restore(template, root):
    shutil.rmtree(root, ignore_errors=True)
    shutil.copytree(template, root, symlinks=True)


def signature(trace):
    return [(r["op"], r["path"], r["path2"], r["nbytes"]) for r in trace]


def check_prefix(recorded, replayed, upto, what):
    a, b = signature(recorded)[:upto], signature(replayed)[:upto]
    if a != b:
        for k, (x, y) in enumerate(zip(a, b)):
            if x != y:
                raise HarnessError(f"replay divergence in {what} at call {k}: recorded {x}, replayed {y}")
        raise HarnessError(f"replay divergence in {what}: lengths {len(a)} vs {len(b)}")


def record(template, root, body, ctx=None):
    restore(template, root)
    ex = Execution(root, [body], ctx).start()
    try:
        a = ex.run_all(0)
    finally:
        ex.kill()
    return a.trace, a.outcome, ex.tree(), a.begin_tree


def window_steps(trace, kinds=MUTATING):
    return [i for i, r in enumerate(trace) if r["in_window"] and r["op"] in kinds]


def run_with(template, root, body, recorded, decisions, ctx=None):
    """Replay one actor with decisions {step: decision}; returns (trace, outcome, tree)."""
    restore(template, root)
    ex = Execution(root, [body], ctx).start()
    first = min(decisions) if decisions else len(recorded)
    try:
        a = ex.run_all(0, lambda step, req: decisions.get(step, "G"))
    finally:
        ex.kill()
    check_prefix(recorded, a.trace, min(first + 1, len(recorded), len(a.trace)), "fault/crash replay")
    run_with.last_end_tree = a.end_tree
    return a.trace, a.outcome, ex.tree(), a.begin_tree


def written_paths(traces):
    """Relative paths mutated in the given traces (for the commuting-reads reduction)."""
    out = set()
    for tr in traces:
        for r in tr:
            if r["op"] in MUTATING and r["op"] != "close":
                for p in (r["path"], r["path2"]):
                    if p and not p.startswith("/"):
                        out.add(p)
    return out


def interleave(template, root, bodies, ctx=None, max_preemptions=None, on_state=None, on_leaf=None, max_steps_factor=4,
               solo_steps=None, written=None):
    """DFS over schedules with state caching.  on_leaf(ex, schedule) is called for every completed
    execution that is reached through a new state.  Returns stats dict."""
    seen = set()
    stats = {"states": 0, "transitions": 0, "executions": 0, "leaves": 0, "pruned": 0, "max_schedule": 0,
             "bound_hit": False, "sample_schedules": []}
    stack = [((), 0)]
    limit = None
    while stack:
        prefix, npre = stack.pop()
        restore(template, root)
        ex = Execution(root, bodies, ctx, written=written).start()
        stats["executions"] += 1
        try:
            last = None
            sched = []
            for a in prefix:
                ex.grant(a)
                sched.append(a)
                last = a
            if prefix:
                stats["transitions"] += 1
            pre = npre
            while True:
                st = ex.state(extra=on_state(ex) if on_state else ())
                if st in seen:
                    stats["pruned"] += 1
                    break
                seen.add(st)
                stats["states"] += 1
                en = ex.enabled()
                if not en:
                    stats["leaves"] += 1
                    if on_leaf:
                        on_leaf(ex, tuple(sched))
                    if len(stats["sample_schedules"]) < 3:
                        stats["sample_schedules"].append("".join(chr(65 + x) for x in sched))
                    break
                # canonical order: the running actor first
                if last in en:
                    en = [last] + [x for x in en if x != last]
                for alt in en[1:]:
                    cost = pre + (1 if last in en and alt != last else 0)
                    if max_preemptions is not None and cost > max_preemptions:
                        stats["bound_hit"] = True
                        continue
                    stack.append((tuple(sched) + (alt,), cost))
                nxt = en[0]
                ex.grant(nxt)
                stats["transitions"] += 1
                sched.append(nxt)
                last = nxt
                stats["max_schedule"] = max(stats["max_schedule"], len(sched))
                if solo_steps and len(sched) > max_steps_factor * solo_steps:
                    raise HarnessError("execution exceeds 4x the solo step count (cyclic schedule space?)")
        finally:
            ex.kill()
    return stats
