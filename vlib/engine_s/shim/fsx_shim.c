/* fsx_shim.c — LD_PRELOAD interposer for engine S (syscall-level controlled execution).
 *
 * Inert until fsx_activate(ctl_fd, actor, root) is called (from Python via ctypes in a forked
 * child).  When active, every interposed file-system call that touches a path under `root`
 * (or an fd opened under it) sends a request line on ctl_fd and blocks for the controller's reply:
 *     G            perform the call, then report  "R <ret> <errno>"
 *     F <errno>    do not perform; return -1 with that errno (report R -1 <errno>)
 *     C            _exit(137) before performing (process death: no handler, no flush, no atexit)
 *     T <n>        write-type calls only: perform the first n bytes, then _exit(137)
 * Request line:  Q <seq> <op> <flags> <nbytes> <path>\t<path2>\n
 * Marker line :  M <text>\n   (answered with G)
 * gcc -O2 -fPIC -shared -o fsx_shim.so fsx_shim.c -ldl
 */
#define _GNU_SOURCE
#include <dlfcn.h>
#include <dirent.h>
#include <errno.h>
#include <fcntl.h>
#include <limits.h>
#include <pthread.h>
#include <stdarg.h>
#include <stdio.h>
#include <stdlib.h>
#include <string.h>
#include <sys/sendfile.h>
#include <sys/stat.h>
#include <sys/types.h>
#include <sys/uio.h>
#include <unistd.h>

static int g_active = 0;
static int g_ctl = -1;
static int g_actor = 0;
static long g_seq = 0;
static char g_root[PATH_MAX];
static size_t g_rootlen = 0;
static pthread_mutex_t g_mu = PTHREAD_MUTEX_INITIALIZER;
static __thread int g_inside = 0;

#define MAXFD 1024
static char *g_fdpath[MAXFD];

#define REAL(name) static __typeof__(name) *real_##name = NULL; if (!real_##name) real_##name = dlsym(RTLD_NEXT, #name)

static ssize_t raw_write_all(int fd, const char *buf, size_t n) {
    static ssize_t (*rw)(int, const void *, size_t) = NULL;
    if (!rw) rw = dlsym(RTLD_NEXT, "write");
    size_t off = 0;
    while (off < n) {
        ssize_t k = rw(fd, buf + off, n - off);
        if (k < 0) { if (errno == EINTR) continue; return -1; }
        off += (size_t)k;
    }
    return (ssize_t)n;
}

static int raw_read_line(int fd, char *buf, size_t cap) {
    static ssize_t (*rr)(int, void *, size_t) = NULL;
    if (!rr) rr = dlsym(RTLD_NEXT, "read");
    size_t off = 0;
    while (off + 1 < cap) {
        char c;
        ssize_t k = rr(fd, &c, 1);
        if (k < 0) { if (errno == EINTR) continue; return -1; }
        if (k == 0) return -1;
        if (c == '\n') break;
        buf[off++] = c;
    }
    buf[off] = 0;
    return (int)off;
}

/* absolute, lexically normalised version of path (relative to cwd or to dirfd's recorded path) */
static int resolve(int dirfd, const char *path, char *out) {
    char tmp[PATH_MAX * 2];
    if (!path) return 0;
    if (path[0] == '/') {
        snprintf(tmp, sizeof tmp, "%s", path);
    } else if (dirfd == AT_FDCWD) {
        char cwd[PATH_MAX];
        if (!getcwd(cwd, sizeof cwd)) return 0;
        snprintf(tmp, sizeof tmp, "%s/%s", cwd, path);
    } else if (dirfd >= 0 && dirfd < MAXFD && g_fdpath[dirfd]) {
        snprintf(tmp, sizeof tmp, "%s/%s", g_fdpath[dirfd], path);
    } else {
        return 0;
    }
    /* normalise: collapse //, /./, /../ */
    char *parts[512]; int np = 0;
    char *save = NULL;
    for (char *tok = strtok_r(tmp, "/", &save); tok; tok = strtok_r(NULL, "/", &save)) {
        if (!strcmp(tok, ".")) continue;
        if (!strcmp(tok, "..")) { if (np > 0) np--; continue; }
        if (np < 512) parts[np++] = tok;
    }
    size_t off = 0;
    out[0] = 0;
    for (int i = 0; i < np; i++) {
        int k = snprintf(out + off, PATH_MAX - off, "/%s", parts[i]);
        if (k < 0 || (size_t)k >= PATH_MAX - off) return 0;
        off += (size_t)k;
    }
    if (np == 0) { out[0] = '/'; out[1] = 0; }
    return 1;
}

static int under_root(const char *abs) {
    if (!g_rootlen) return 0;
    if (strncmp(abs, g_root, g_rootlen) != 0) return 0;
    return abs[g_rootlen] == 0 || abs[g_rootlen] == '/';
}

static void fd_set_path(int fd, const char *abs) {
    if (fd < 0 || fd >= MAXFD) return;
    free(g_fdpath[fd]);
    g_fdpath[fd] = abs ? strdup(abs) : NULL;
}

/* decision codes */
enum { D_GO = 0, D_FAIL = 1, D_TORN = 2 };

/* Ask the controller. Returns decision; *arg = errno (FAIL) or byte count (TORN). CRASH never returns. */
static int ask(const char *op, const char *p1, const char *p2, long flags, long nbytes, long *arg) {
    char line[PATH_MAX * 2 + 128];
    char reply[64];
    pthread_mutex_lock(&g_mu);
    int n = snprintf(line, sizeof line, "Q %ld %s %ld %ld %s\t%s\n", ++g_seq, op, flags, nbytes, p1 ? p1 : "", p2 ? p2 : "");
    if (raw_write_all(g_ctl, line, (size_t)n) < 0 || raw_read_line(g_ctl, reply, sizeof reply) < 0) {
        pthread_mutex_unlock(&g_mu);
        _exit(139); /* controller gone */
    }
    pthread_mutex_unlock(&g_mu);
    if (reply[0] == 'G') return D_GO;
    if (reply[0] == 'C') _exit(137);
    if (reply[0] == 'F') { *arg = atol(reply + 2); return D_FAIL; }
    if (reply[0] == 'T') { *arg = atol(reply + 2); return D_TORN; }
    _exit(138);
}

static void report(long ret, int err) {
    char line[64];
    pthread_mutex_lock(&g_mu);
    int n = snprintf(line, sizeof line, "R %ld %d\n", ret, ret < 0 ? err : 0);
    if (raw_write_all(g_ctl, line, (size_t)n) < 0) { pthread_mutex_unlock(&g_mu); _exit(139); }
    pthread_mutex_unlock(&g_mu);
}

/* exported: activation and markers */
int fsx_activate(int ctl_fd, int actor, const char *root) {
    g_ctl = ctl_fd;
    g_actor = actor;
    snprintf(g_root, sizeof g_root, "%s", root);
    g_rootlen = strlen(g_root);
    while (g_rootlen > 1 && g_root[g_rootlen - 1] == '/') g_root[--g_rootlen] = 0;
    g_seq = 0;
    for (int i = 0; i < MAXFD; i++) { free(g_fdpath[i]); g_fdpath[i] = NULL; }
    g_active = 1;
    return 0;
}

int fsx_deactivate(void) { g_active = 0; return 0; }

int fsx_mark(const char *text) {
    if (!g_active) return 0;
    char line[256], reply[64];
    pthread_mutex_lock(&g_mu);
    int n = snprintf(line, sizeof line, "M %s\n", text);
    if (raw_write_all(g_ctl, line, (size_t)n) < 0 || raw_read_line(g_ctl, reply, sizeof reply) < 0) _exit(139);
    pthread_mutex_unlock(&g_mu);
    return 0;
}

#define ACTIVE() (g_active && !g_inside)

/* ---------- generic helpers for path calls ---------- */
#define PATH_PROLOGUE(dirfd, path, opname, flags, P2)                                   \
    char abs1[PATH_MAX];                                                                \
    int tracked = ACTIVE() && resolve(dirfd, path, abs1) && under_root(abs1);           \
    long darg = 0;                                                                      \
    if (tracked) {                                                                      \
        int d = ask(opname, abs1, P2, flags, 0, &darg);                                 \
        if (d == D_FAIL) { report(-1, (int)darg); errno = (int)darg; return -1; }       \
    }

#define PATH_EPILOGUE(ret)                                                              \
    if (tracked) { int e = errno; report((long)(ret), e); errno = e; }

/* ---------- open family ---------- */
static int do_open(int dirfd, const char *path, int flags, mode_t mode, int use64) {
    static int (*r_openat)(int, const char *, int, ...) = NULL;
    if (!r_openat) r_openat = dlsym(RTLD_NEXT, use64 ? "openat64" : "openat");
    char abs1[PATH_MAX];
    int tracked = ACTIVE() && resolve(dirfd, path, abs1) && under_root(abs1);
    long darg = 0;
    if (tracked) {
        const char *op = (flags & (O_WRONLY | O_RDWR | O_CREAT | O_TRUNC | O_APPEND)) ? "open_w"
                         : ((flags & O_DIRECTORY) ? "open_d" : "open_r");
        int d = ask(op, abs1, NULL, flags, 0, &darg);
        if (d == D_FAIL) { report(-1, (int)darg); errno = (int)darg; return -1; }
    }
    int fd = r_openat(dirfd, path, flags, mode);
    if (!tracked && g_active && fd >= 0 && fd < MAXFD && g_fdpath[fd]) fd_set_path(fd, NULL); /* stale entry */
    if (tracked) {
        int e = errno;
        if (fd >= 0) fd_set_path(fd, abs1);
        report(fd, e);
        errno = e;
    }
    return fd;
}

int open(const char *path, int flags, ...) {
    mode_t mode = 0;
    if (flags & (O_CREAT | O_TMPFILE)) { va_list ap; va_start(ap, flags); mode = va_arg(ap, mode_t); va_end(ap); }
    return do_open(AT_FDCWD, path, flags, mode, 0);
}
int open64(const char *path, int flags, ...) {
    mode_t mode = 0;
    if (flags & (O_CREAT | O_TMPFILE)) { va_list ap; va_start(ap, flags); mode = va_arg(ap, mode_t); va_end(ap); }
    return do_open(AT_FDCWD, path, flags | O_LARGEFILE, mode, 1);
}
int openat(int dirfd, const char *path, int flags, ...) {
    mode_t mode = 0;
    if (flags & (O_CREAT | O_TMPFILE)) { va_list ap; va_start(ap, flags); mode = va_arg(ap, mode_t); va_end(ap); }
    return do_open(dirfd, path, flags, mode, 0);
}
int openat64(int dirfd, const char *path, int flags, ...) {
    mode_t mode = 0;
    if (flags & (O_CREAT | O_TMPFILE)) { va_list ap; va_start(ap, flags); mode = va_arg(ap, mode_t); va_end(ap); }
    return do_open(dirfd, path, flags | O_LARGEFILE, mode, 1);
}
int creat(const char *path, mode_t mode) { return do_open(AT_FDCWD, path, O_CREAT | O_WRONLY | O_TRUNC, mode, 0); }
int creat64(const char *path, mode_t mode) { return do_open(AT_FDCWD, path, O_CREAT | O_WRONLY | O_TRUNC | O_LARGEFILE, mode, 1); }

int close(int fd) {
    REAL(close);
    int tracked = ACTIVE() && fd >= 0 && fd < MAXFD && g_fdpath[fd] != NULL && fd != g_ctl;
    long darg = 0;
    if (tracked) {
        int d = ask("close", g_fdpath[fd], NULL, fd, 0, &darg);
        if (d == D_FAIL) {
            /* the descriptor is released even when close reports an error */
            real_close(fd); fd_set_path(fd, NULL);
            report(-1, (int)darg); errno = (int)darg; return -1;
        }
    }
    int r = real_close(fd);
    if (tracked) { int e = errno; fd_set_path(fd, NULL); report(r, e); errno = e; }
    else if (fd >= 0 && fd < MAXFD && g_fdpath[fd]) fd_set_path(fd, NULL);
    return r;
}

/* ---------- write family ---------- */
ssize_t write(int fd, const void *buf, size_t n) {
    REAL(write);
    int tracked = ACTIVE() && fd >= 0 && fd < MAXFD && g_fdpath[fd] != NULL && fd != g_ctl;
    long darg = 0;
    if (tracked) {
        int d = ask("write", g_fdpath[fd], NULL, fd, (long)n, &darg);
        if (d == D_FAIL) { report(-1, (int)darg); errno = (int)darg; return -1; }
        if (d == D_TORN) {
            size_t k = (size_t)darg < n ? (size_t)darg : n;
            real_write(fd, buf, k);
            _exit(137);
        }
    }
    ssize_t r = real_write(fd, buf, n);
    if (tracked) { int e = errno; report((long)r, e); errno = e; }
    return r;
}

ssize_t pwrite(int fd, const void *buf, size_t n, off_t off) {
    REAL(pwrite);
    int tracked = ACTIVE() && fd >= 0 && fd < MAXFD && g_fdpath[fd] != NULL;
    long darg = 0;
    if (tracked) {
        int d = ask("write", g_fdpath[fd], NULL, fd, (long)n, &darg);
        if (d == D_FAIL) { report(-1, (int)darg); errno = (int)darg; return -1; }
        if (d == D_TORN) { size_t k = (size_t)darg < n ? (size_t)darg : n; real_pwrite(fd, buf, k, off); _exit(137); }
    }
    ssize_t r = real_pwrite(fd, buf, n, off);
    if (tracked) { int e = errno; report((long)r, e); errno = e; }
    return r;
}
ssize_t pwrite64(int fd, const void *buf, size_t n, off64_t off) {
    REAL(pwrite64);
    int tracked = ACTIVE() && fd >= 0 && fd < MAXFD && g_fdpath[fd] != NULL;
    long darg = 0;
    if (tracked) {
        int d = ask("write", g_fdpath[fd], NULL, fd, (long)n, &darg);
        if (d == D_FAIL) { report(-1, (int)darg); errno = (int)darg; return -1; }
        if (d == D_TORN) { size_t k = (size_t)darg < n ? (size_t)darg : n; real_pwrite64(fd, buf, k, off); _exit(137); }
    }
    ssize_t r = real_pwrite64(fd, buf, n, off);
    if (tracked) { int e = errno; report((long)r, e); errno = e; }
    return r;
}

ssize_t writev(int fd, const struct iovec *iov, int cnt) {
    REAL(writev);
    int tracked = ACTIVE() && fd >= 0 && fd < MAXFD && g_fdpath[fd] != NULL && fd != g_ctl;
    long darg = 0;
    if (tracked) {
        long total = 0;
        for (int i = 0; i < cnt; i++) total += (long)iov[i].iov_len;
        int d = ask("write", g_fdpath[fd], NULL, fd, total, &darg);
        if (d == D_FAIL) { report(-1, (int)darg); errno = (int)darg; return -1; }
        if (d == D_TORN) {
            REAL(write);
            long left = darg;
            for (int i = 0; i < cnt && left > 0; i++) {
                size_t k = (size_t)left < iov[i].iov_len ? (size_t)left : iov[i].iov_len;
                real_write(fd, iov[i].iov_base, k);
                left -= (long)k;
            }
            _exit(137);
        }
    }
    ssize_t r = real_writev(fd, iov, cnt);
    if (tracked) { int e = errno; report((long)r, e); errno = e; }
    return r;
}

ssize_t sendfile(int out_fd, int in_fd, off_t *off, size_t n) {
    REAL(sendfile);
    int tracked = ACTIVE() && out_fd >= 0 && out_fd < MAXFD && g_fdpath[out_fd] != NULL;
    long darg = 0;
    if (tracked) {
        int d = ask("sendfile", g_fdpath[out_fd], (in_fd >= 0 && in_fd < MAXFD) ? g_fdpath[in_fd] : NULL, out_fd, (long)n, &darg);
        if (d == D_FAIL) { report(-1, (int)darg); errno = (int)darg; return -1; }
        if (d == D_TORN) { real_sendfile(out_fd, in_fd, off, (size_t)darg); _exit(137); }
    }
    ssize_t r = real_sendfile(out_fd, in_fd, off, n);
    if (tracked) { int e = errno; report((long)r, e); errno = e; }
    return r;
}
ssize_t sendfile64(int out_fd, int in_fd, off64_t *off, size_t n) {
    REAL(sendfile64);
    int tracked = ACTIVE() && out_fd >= 0 && out_fd < MAXFD && g_fdpath[out_fd] != NULL;
    long darg = 0;
    if (tracked) {
        int d = ask("sendfile", g_fdpath[out_fd], (in_fd >= 0 && in_fd < MAXFD) ? g_fdpath[in_fd] : NULL, out_fd, (long)n, &darg);
        if (d == D_FAIL) { report(-1, (int)darg); errno = (int)darg; return -1; }
        if (d == D_TORN) { real_sendfile64(out_fd, in_fd, off, (size_t)darg); _exit(137); }
    }
    ssize_t r = real_sendfile64(out_fd, in_fd, off, n);
    if (tracked) { int e = errno; report((long)r, e); errno = e; }
    return r;
}
ssize_t copy_file_range(int in_fd, off64_t *ioff, int out_fd, off64_t *ooff, size_t n, unsigned int fl) {
    REAL(copy_file_range);
    int tracked = ACTIVE() && out_fd >= 0 && out_fd < MAXFD && g_fdpath[out_fd] != NULL;
    long darg = 0;
    if (tracked) {
        int d = ask("sendfile", g_fdpath[out_fd], (in_fd >= 0 && in_fd < MAXFD) ? g_fdpath[in_fd] : NULL, out_fd, (long)n, &darg);
        if (d == D_FAIL) { report(-1, (int)darg); errno = (int)darg; return -1; }
        if (d == D_TORN) { real_copy_file_range(in_fd, ioff, out_fd, ooff, (size_t)darg, fl); _exit(137); }
    }
    ssize_t r = real_copy_file_range(in_fd, ioff, out_fd, ooff, n, fl);
    if (tracked) { int e = errno; report((long)r, e); errno = e; }
    return r;
}

int ftruncate(int fd, off_t len) {
    REAL(ftruncate);
    int tracked = ACTIVE() && fd >= 0 && fd < MAXFD && g_fdpath[fd] != NULL;
    long darg = 0;
    if (tracked) { int d = ask("ftruncate", g_fdpath[fd], NULL, fd, (long)len, &darg);
        if (d == D_FAIL) { report(-1, (int)darg); errno = (int)darg; return -1; } }
    int r = real_ftruncate(fd, len);
    if (tracked) { int e = errno; report(r, e); errno = e; }
    return r;
}
int ftruncate64(int fd, off64_t len) {
    REAL(ftruncate64);
    int tracked = ACTIVE() && fd >= 0 && fd < MAXFD && g_fdpath[fd] != NULL;
    long darg = 0;
    if (tracked) { int d = ask("ftruncate", g_fdpath[fd], NULL, fd, (long)len, &darg);
        if (d == D_FAIL) { report(-1, (int)darg); errno = (int)darg; return -1; } }
    int r = real_ftruncate64(fd, len);
    if (tracked) { int e = errno; report(r, e); errno = e; }
    return r;
}
int fsync(int fd) {
    REAL(fsync);
    int tracked = ACTIVE() && fd >= 0 && fd < MAXFD && g_fdpath[fd] != NULL;
    long darg = 0;
    if (tracked) { int d = ask("fsync", g_fdpath[fd], NULL, fd, 0, &darg);
        if (d == D_FAIL) { report(-1, (int)darg); errno = (int)darg; return -1; } }
    int r = real_fsync(fd);
    if (tracked) { int e = errno; report(r, e); errno = e; }
    return r;
}

/* ---------- path mutators ---------- */
int rename(const char *a, const char *b) {
    REAL(rename);
    char abs2[PATH_MAX]; int ok2 = resolve(AT_FDCWD, b, abs2);
    PATH_PROLOGUE(AT_FDCWD, a, "rename", 0, ok2 ? abs2 : b)
    if (!tracked && ACTIVE() && ok2 && under_root(abs2)) {
        tracked = 1; resolve(AT_FDCWD, a, abs1);
        int d = ask("rename", abs1, abs2, 0, 0, &darg);
        if (d == D_FAIL) { report(-1, (int)darg); errno = (int)darg; return -1; }
    }
    int r = real_rename(a, b);
    PATH_EPILOGUE(r)
    return r;
}
int renameat(int fa, const char *a, int fb, const char *b) {
    REAL(renameat);
    char abs2[PATH_MAX]; int ok2 = resolve(fb, b, abs2);
    PATH_PROLOGUE(fa, a, "rename", 0, ok2 ? abs2 : b)
    int r = real_renameat(fa, a, fb, b);
    PATH_EPILOGUE(r)
    return r;
}
int renameat2(int fa, const char *a, int fb, const char *b, unsigned int fl) {
    REAL(renameat2);
    char abs2[PATH_MAX]; int ok2 = resolve(fb, b, abs2);
    PATH_PROLOGUE(fa, a, "rename", (long)fl, ok2 ? abs2 : b)
    int r = real_renameat2(fa, a, fb, b, fl);
    PATH_EPILOGUE(r)
    return r;
}
int mkdir(const char *p, mode_t m) {
    REAL(mkdir);
    PATH_PROLOGUE(AT_FDCWD, p, "mkdir", 0, NULL)
    int r = real_mkdir(p, m);
    PATH_EPILOGUE(r)
    return r;
}
int mkdirat(int fd, const char *p, mode_t m) {
    REAL(mkdirat);
    PATH_PROLOGUE(fd, p, "mkdir", 0, NULL)
    int r = real_mkdirat(fd, p, m);
    PATH_EPILOGUE(r)
    return r;
}
int rmdir(const char *p) {
    REAL(rmdir);
    PATH_PROLOGUE(AT_FDCWD, p, "rmdir", 0, NULL)
    int r = real_rmdir(p);
    PATH_EPILOGUE(r)
    return r;
}
int unlink(const char *p) {
    REAL(unlink);
    PATH_PROLOGUE(AT_FDCWD, p, "unlink", 0, NULL)
    int r = real_unlink(p);
    PATH_EPILOGUE(r)
    return r;
}
int unlinkat(int fd, const char *p, int fl) {
    REAL(unlinkat);
    PATH_PROLOGUE(fd, p, (fl & AT_REMOVEDIR) ? "rmdir" : "unlink", 0, NULL)
    int r = real_unlinkat(fd, p, fl);
    PATH_EPILOGUE(r)
    return r;
}
int symlink(const char *target, const char *lp) {
    REAL(symlink);
    PATH_PROLOGUE(AT_FDCWD, lp, "symlink", 0, target)
    int r = real_symlink(target, lp);
    PATH_EPILOGUE(r)
    return r;
}
int symlinkat(const char *target, int fd, const char *lp) {
    REAL(symlinkat);
    PATH_PROLOGUE(fd, lp, "symlink", 0, target)
    int r = real_symlinkat(target, fd, lp);
    PATH_EPILOGUE(r)
    return r;
}
int link(const char *a, const char *b) {
    REAL(link);
    char abs2[PATH_MAX]; int ok2 = resolve(AT_FDCWD, a, abs2);
    PATH_PROLOGUE(AT_FDCWD, b, "link", 0, ok2 ? abs2 : a)
    int r = real_link(a, b);
    PATH_EPILOGUE(r)
    return r;
}
int truncate(const char *p, off_t len) {
    REAL(truncate);
    PATH_PROLOGUE(AT_FDCWD, p, "truncate", (long)len, NULL)
    int r = real_truncate(p, len);
    PATH_EPILOGUE(r)
    return r;
}
int chmod(const char *p, mode_t m) {
    REAL(chmod);
    PATH_PROLOGUE(AT_FDCWD, p, "chmod", (long)m, NULL)
    int r = real_chmod(p, m);
    PATH_EPILOGUE(r)
    return r;
}
int utimensat(int fd, const char *p, const struct timespec t[2], int fl) {
    REAL(utimensat);
    if (!p) return real_utimensat(fd, p, t, fl);
    PATH_PROLOGUE(fd, p, "utimens", 0, NULL)
    int r = real_utimensat(fd, p, t, fl);
    PATH_EPILOGUE(r)
    return r;
}

/* ---------- observers ---------- */
#define STAT_BODY(NAME, DIRFD, PATHARG, OPNAME, CALL)                                  \
    REAL(NAME);                                                                        \
    PATH_PROLOGUE(DIRFD, PATHARG, OPNAME, 0, NULL)                                     \
    int r = CALL;                                                                      \
    PATH_EPILOGUE(r)                                                                   \
    return r;

int stat(const char *p, struct stat *st) { STAT_BODY(stat, AT_FDCWD, p, "stat", real_stat(p, st)) }
int stat64(const char *p, struct stat64 *st) { STAT_BODY(stat64, AT_FDCWD, p, "stat", real_stat64(p, st)) }
int lstat(const char *p, struct stat *st) { STAT_BODY(lstat, AT_FDCWD, p, "lstat", real_lstat(p, st)) }
int lstat64(const char *p, struct stat64 *st) { STAT_BODY(lstat64, AT_FDCWD, p, "lstat", real_lstat64(p, st)) }
int fstatat(int fd, const char *p, struct stat *st, int fl) {
    REAL(fstatat);
    if (!p || !p[0]) return real_fstatat(fd, p, st, fl);
    PATH_PROLOGUE(fd, p, (fl & AT_SYMLINK_NOFOLLOW) ? "lstat" : "stat", 0, NULL)
    int r = real_fstatat(fd, p, st, fl);
    PATH_EPILOGUE(r)
    return r;
}
int fstatat64(int fd, const char *p, struct stat64 *st, int fl) {
    REAL(fstatat64);
    if (!p || !p[0]) return real_fstatat64(fd, p, st, fl);
    PATH_PROLOGUE(fd, p, (fl & AT_SYMLINK_NOFOLLOW) ? "lstat" : "stat", 0, NULL)
    int r = real_fstatat64(fd, p, st, fl);
    PATH_EPILOGUE(r)
    return r;
}
int access(const char *p, int m) { STAT_BODY(access, AT_FDCWD, p, "stat", real_access(p, m)) }
int faccessat(int fd, const char *p, int m, int fl) {
    REAL(faccessat);
    PATH_PROLOGUE(fd, p, "stat", 0, NULL)
    int r = real_faccessat(fd, p, m, fl);
    PATH_EPILOGUE(r)
    return r;
}

DIR *opendir(const char *p) {
    REAL(opendir);
    char abs1[PATH_MAX];
    int tracked = ACTIVE() && resolve(AT_FDCWD, p, abs1) && under_root(abs1);
    long darg = 0;
    if (tracked) {
        int d = ask("opendir", abs1, NULL, 0, 0, &darg);
        if (d == D_FAIL) { report(-1, (int)darg); errno = (int)darg; return NULL; }
    }
    g_inside++;
    DIR *r = real_opendir(p);
    g_inside--;
    if (tracked) { int e = errno; report(r ? 0 : -1, e); errno = e; }
    return r;
}
DIR *fdopendir(int fd) {
    REAL(fdopendir);
    int tracked = ACTIVE() && fd >= 0 && fd < MAXFD && g_fdpath[fd] != NULL;
    long darg = 0;
    if (tracked) {
        int d = ask("opendir", g_fdpath[fd], NULL, fd, 0, &darg);
        if (d == D_FAIL) { report(-1, (int)darg); errno = (int)darg; return NULL; }
    }
    DIR *r = real_fdopendir(fd);
    if (tracked) { int e = errno; report(r ? 0 : -1, e); errno = e; }
    return r;
}
