"""Scratch space under /dev/shm (tmpfs), one root per run, one sub-directory per worker.

Nothing a registered command needs lives here; everything is removed on exit.
"""
import atexit
import contextlib
import itertools
import os
import shutil
import tempfile

_ROOT = None
_OWNER = None
_counter = itertools.count()


def _base():
    for b in ("/dev/shm", os.environ.get("TMPDIR") or "/tmp"):
        if os.path.isdir(b) and os.access(b, os.W_OK):
            return b
    return tempfile.gettempdir()


def setup_root(ctx):
    global _ROOT, _OWNER
    base = _base()
    # remove stale roots of dead runs
    for name in os.listdir(base):
        if name.startswith("signac-verif-"):
            try:
                pid = int(name.split("-")[2])
            except (IndexError, ValueError):
                continue
            if not os.path.exists(f"/proc/{pid}"):
                shutil.rmtree(os.path.join(base, name), ignore_errors=True)
    _ROOT = os.path.join(base, f"signac-verif-{os.getpid()}-{ctx.prop}-{ctx.seed}")
    shutil.rmtree(_ROOT, ignore_errors=True)
    os.makedirs(_ROOT)
    _OWNER = os.getpid()
    atexit.register(teardown_root)
    return _ROOT


def teardown_root():
    global _ROOT
    if _ROOT and _OWNER == os.getpid():
        try:
            os.chdir("/")
        except OSError:
            pass
        shutil.rmtree(_ROOT, ignore_errors=True)
        _ROOT = None


def root():
    return _ROOT


# Every project the checks build lives below a directory whose name is unusual but legitimate: a space, a bracket class, a
# brace field, a percent sign and a non-ASCII letter (glob / format / regex meta characters must not matter to signac).
ODD = "" if os.environ.get("VCHECK_PLAIN_PATHS") else " [1]{T}%s é"


def worker_dir():
    d = os.path.join(_ROOT, f"w{os.getpid()}{ODD}")
    os.makedirs(d, exist_ok=True)
    return d


@contextlib.contextmanager
def fresh(prefix="x"):
    """A fresh empty directory, removed afterwards (cwd is restored to '/')."""
    d = os.path.join(worker_dir(), f"{prefix}{next(_counter)}")
    os.makedirs(d)
    try:
        yield d
    finally:
        try:
            os.chdir("/")
        except OSError:
            pass
        shutil.rmtree(d, ignore_errors=True)
