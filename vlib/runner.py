"""CLI of the verification machinery: tiers, seeds, worker pool, evidence, exit codes.

A check module (vlib/checks/cXX.py) exposes

    PROPERTY = "C07"; LEVEL = "exploration" | "fault_enumeration" | "model_checking"
    def run(ctx) -> Report
    def replay(payload, ctx) -> list[violation]      # re-execute one recorded case

A violation is a dict {sig:{kind,...}, input, expected, observed, msg}.  The runner
matches violations against known_findings.json (open entries only), writes one replay
file per distinct unlisted violation, prints the VIOLATION / KNOWN-FINDING lines and
writes evidence/<id>.json.
"""
import hashlib
import importlib
import json
import os
import sys
import time
import traceback

from . import scratch
from .findings import Findings

HERE = os.path.dirname(os.path.dirname(os.path.abspath(__file__)))
MAX_REPLAYS = 12


class Ctx:
    def __init__(self, prop, tier, seed):
        self.prop = prop
        self.tier = tier
        self.seed = seed
        self.quick = tier == "quick"
        self.nworkers = int(os.environ.get("VERIF_WORKERS", "0")) or min(16, os.cpu_count() or 4)
        self.repo = os.environ.get("VCHECK_REPO", "/repo")
        self.verif = HERE


class Report:
    """What a check hands back to the runner."""

    def __init__(self, level):
        self.level = level
        self.coverage = {}
        self.assumptions = []
        self.violations = []
        self.harness_errors = []

    def add_violation(self, v):
        self.violations.append(v)


def _digest(obj):
    return hashlib.sha1(json.dumps(obj, sort_keys=True, default=repr).encode()).hexdigest()[:16]


def _assert_repo(ctx):
    import logging

    import signac

    logging.disable(logging.CRITICAL)  # signac logs expected errors of the fault universes

    root = os.path.realpath(ctx.repo)
    f = os.path.realpath(signac.__file__)
    if not f.startswith(root + os.sep):
        print(f"HARNESS-ERROR signac imported from {f}, expected under {root}")
        sys.exit(2)
    own_thread_pools()


def own_thread_pools():
    """Free-running pool threads are a source of nondeterminism the explorers do not control: inside the checking process
    signac's thread pools run their tasks one after the other, in order (engine T explores the interleavings separately)."""
    from .engine_t import SerialPool
    for name in ("signac.project", "signac.sync"):
        try:
            mod = importlib.import_module(name)
        except Exception:  # noqa
            continue
        if hasattr(mod, "ThreadPool"):
            mod.ThreadPool = SerialPool


def write_evidence(ctx, report, wall, n_unlisted):
    cov = dict(report.coverage)
    ev = {
        "property_id": ctx.prop,
        "tier": ctx.tier,
        "seed": ctx.seed,
        "level": report.level,
        "coverage": cov,
        "assumptions": list(report.assumptions),
        "wall_s": round(wall, 3),
        "violations": n_unlisted,
    }
    os.makedirs(os.path.join(HERE, "evidence"), exist_ok=True)
    fn = os.path.join(HERE, "evidence", f"{ctx.prop}.json")
    tmp = fn + ".tmp"
    with open(tmp, "w") as f:
        json.dump(ev, f, indent=1, sort_keys=True, default=repr)
        f.write("\n")
    os.replace(tmp, fn)
    return fn


def run_check(prop, tier, seed):
    ctx = Ctx(prop, tier, seed)
    _assert_repo(ctx)
    mod = importlib.import_module(f"vlib.checks.{prop.lower()}")
    findings = Findings(os.path.join(HERE, "known_findings.json"), prop)
    t0 = time.time()
    scratch.setup_root(ctx)
    try:
        try:
            report = mod.run(ctx)
        except BaseException as e:  # noqa
            from .engine_i import raised_inside_signac
            where = raised_inside_signac(e)
            if where is None or isinstance(e, (KeyboardInterrupt, SystemExit)):
                raise
            # a signac call the check makes while preparing its universe fails inside signac itself
            report = Report(getattr(mod, "LEVEL", "exploration"))
            report.coverage.update({"evaluations": 1, "distinct_nontrivial": 0, "rule": "aborted: a preparatory signac call raised",
                                    "samples": [], "states": 1, "transitions": 1, "traces_validated_against_impl": 1,
                                    "exhaustive": False})
            report.add_violation({"sig": {"kind": "public-call-raises", "exc": type(e).__name__, "where": where},
                                  "scenario": "setup", "input": {"phase": "universe construction"},
                                  "expected": "no exception", "observed": f"{type(e).__name__}: {e}"[:500],
                                  "msg": f"a signac call made while the check prepared its universe raised "
                                         f"{type(e).__name__}: {e} (in {where})\n" + traceback.format_exc()[-1200:]})
    finally:
        scratch.teardown_root()
    wall = time.time() - t0

    unlisted = []
    seen = set()
    for v in report.violations:
        entry = findings.match(v)
        if entry is not None:
            continue
        key = _digest([v.get("sig"), v.get("input")])
        if key in seen:
            continue
        seen.add(key)
        unlisted.append(v)
    cov = report.coverage
    cov["known_findings_observed"] = findings.observed_counts()
    cov.setdefault("exhaustive", True)
    evfile = write_evidence(ctx, report, wall, len(unlisted))

    for line in findings.lines():
        print(line)
    rc = 0
    if report.harness_errors:
        for h in report.harness_errors[:10]:
            print(f"HARNESS-ERROR property={prop} {h}")
        rc = 2
    if unlisted:
        # group by signature so that every distinct kind gets at least one replay file
        by_sig = {}
        for v in unlisted:
            by_sig.setdefault(_digest(v.get("sig")), []).append(v)
        kinds = {}
        for v in unlisted:
            k = json.dumps(v.get("sig"), sort_keys=True)
            kinds[k] = kinds.get(k, 0) + 1
        for k, c in sorted(kinds.items(), key=lambda kv: -kv[1])[:30]:
            print(f"  unlisted signature x{c}: {k}")
        written = 0
        rdir = os.path.join(HERE, "replays", prop)
        os.makedirs(rdir, exist_ok=True)
        for sig, vs in by_sig.items():
            for v in vs[:2]:
                if written >= MAX_REPLAYS:
                    break
                payload = {
                    "property": prop,
                    "tier": tier,
                    "seed": seed,
                    "signature": v.get("sig"),
                    "scenario": v.get("scenario"),
                    "input": v.get("input"),
                    "expected": v.get("expected"),
                    "observed": v.get("observed"),
                    "message": v.get("msg"),
                    "reproduced_twice": v.get("reproduced_twice"),
                    "count_with_same_signature": len(vs),
                }
                body = json.dumps(payload, indent=1, sort_keys=True, default=repr)
                fn = os.path.join(rdir, hashlib.sha1(body.encode()).hexdigest()[:16] + ".json")
                with open(fn, "w") as f:
                    f.write(body + "\n")
                print(f"VIOLATION property={prop} replay={fn}")
                print(f"  kind={v.get('sig', {}).get('kind')} :: {str(v.get('msg'))[:300]}")
                written += 1
        rc = 1  # reproduced violations outrank harness self-check complaints
    summary = {k: cov[k] for k in ("evaluations", "distinct_nontrivial", "states", "transitions",
                                   "traces_validated_against_impl") if k in cov}
    print(f"[{prop}] tier={tier} seed={seed} wall={wall:.1f}s {summary} "
          f"violations={len(unlisted)} known={sum(findings.observed_counts().values())} evidence={evfile}")
    return rc


def run_replay(path):
    with open(path) as f:
        payload = json.load(f)
    prop = payload["property"]
    if (payload.get("signature") or {}).get("kind") == "public-call-raises":
        print(f"replay of {path}: a signac call made by the check itself failed:")
        print(payload.get("message"))
        print(f"re-run `./vcheck {prop}` to reproduce (the failing call is part of the check's set-up)")
        print(f"VIOLATION property={prop} replay={path}")
        return 1
    ctx = Ctx(prop, payload.get("tier", "quick"), payload.get("seed", 0))
    _assert_repo(ctx)
    mod = importlib.import_module(f"vlib.checks.{prop.lower()}")
    scratch.setup_root(ctx)
    try:
        vs = mod.replay(payload, ctx)
    finally:
        scratch.teardown_root()
    print(f"replay of {path}: property={prop} scenario={payload.get('scenario')}")
    print("input   :", json.dumps(payload.get("input"), default=repr)[:2000])
    if not vs:
        print("result  : property HOLDS on this input (no violation reproduced)")
        return 0
    for v in vs:
        print("expected:", json.dumps(v.get("expected"), default=repr)[:1500])
        print("observed:", json.dumps(v.get("observed"), default=repr)[:1500])
        print("message :", v.get("msg"))
        print(f"VIOLATION property={prop} replay={path}")
    return 1


def main(argv):
    if not argv:
        print(__doc__)
        return 2
    if argv[0] == "replay":
        return run_replay(argv[1])
    if argv[0] == "setup":
        from .engine_s import build

        return build.build(verbose=True)
    prop = argv[0].upper()
    tier = os.environ.get("VERIF_TIER", "quick")
    if "--tier" in argv:
        tier = argv[argv.index("--tier") + 1]
    if tier not in ("quick", "thorough"):
        tier = "quick"
    try:
        seed = int(os.environ.get("VERIF_SEED", "0"))
    except ValueError:
        seed = 0
    try:
        return run_check(prop, tier, seed)
    except SystemExit:
        raise
    except BaseException:
        traceback.print_exc()
        print(f"HARNESS-ERROR property={prop} unhandled exception in the harness")
        return 2


if __name__ == "__main__":
    sys.exit(main(sys.argv[1:]))
