"""C09 — state point corruption is always detected, never accepted, and repairable.

Engine I, fault enumeration: for state point files of several shapes, truncation at EVERY byte
offset, EVERY (offset, replacement byte class), deletion, replacement by other valid JSON,
cross-job swaps, directory renames; single-job damage exhaustively, subsets of <=3 jobs over
one representative per damage class; each with and without a persistent cache.
Damage is classified independently (canon.job_id of the parsed file vs directory name).
"""
import itertools
import json
import os
import shutil

from .. import canon, engine_i, env, scratch
from ..runner import Report

PROPERTY = "C09"
LEVEL = "fault_enumeration"

SHAPES = [
    {"a": 1},
    {"a": {"b": 2}, "c": "x"},
    {"a": [1, 2], "t": True},
    {"x": 0.5, "n": None},
    {"k": "é"},
    {"key1": "value one", "key2": 12345, "key3": [1.5, "s", None]},
    {},  # the empty state point is a job like any other
]
BYSTANDERS = [{"by": 1}, {"by": 2, "z": {"y": [1]}}]
REPL = [b"0", b"1", b"9", b'"', b"{", b"}", b"[", b",", b":", b" ", b"a", b"e", b".", b"-", b"\x00", b"\x80"]
SPFILE = "signac_statepoint.json"
DOCFILE = "signac_job_document.json"
UNUSED_ID = "0123456789abcdef0123456789abcdef"

_TEMPLATES = {}


def _template(sps, cache):
    """Build once per worker a project holding `sps` (each with document and nested data)."""
    import signac

    key = (os.getpid(), json.dumps(sps, sort_keys=True), cache)
    if key in _TEMPLATES:
        return _TEMPLATES[key]
    d = os.path.join(scratch.worker_dir(), f"c09-tpl-{len(_TEMPLATES)}")
    shutil.rmtree(d, ignore_errors=True)
    os.makedirs(d)
    p = signac.init_project(d)
    for i, sp in enumerate(sps):
        job = p.open_job(sp).init()
        job.doc["i"] = i
        os.makedirs(job.fn("sub"), exist_ok=True)
        with open(job.fn("sub/data.txt"), "w") as f:
            f.write(f"payload {i}")
        with open(job.fn("top.bin"), "wb") as f:
            f.write(bytes([i]) * 10)
    if cache:
        signac.Project(d).update_cache()
    _TEMPLATES[key] = d
    return d


def classify_dir(ws, name):
    """Independent verdict on one job directory: (damaged?, parsed value or None)."""
    fn = os.path.join(ws, name, SPFILE)
    try:
        with open(fn, "rb") as f:
            raw = f.read()
    except OSError:
        return True, None, "missing"
    try:
        val = json.loads(raw.decode())
    except ValueError:
        return True, None, "unparseable"
    try:
        jid = canon.job_id(val)
    except (ValueError, TypeError):
        return True, val, "not-a-canonical-json-value"
    if jid != name:
        return True, val, "hash-mismatch"
    return False, val, "intact"


def payloads(ws):
    """multiset of per-directory payloads: {frozenset((relpath, sha1)) : count}, state point files excluded"""
    out = {}
    per_dir = {}
    for name in sorted(os.listdir(ws)):
        snap = canon.snapshot(os.path.join(ws, name))
        snap.pop(SPFILE, None)
        key = tuple(sorted((k, v) for k, v in snap.items()))
        out[key] = out.get(key, 0) + 1
        per_dir[name] = key
    return out, per_dir


def apply_damage(ws, ids, dmg):
    """dmg: list of (job index, kind, args).  Returns list of human-readable descriptions."""
    for j, kind, arg in dmg:
        fn = os.path.join(ws, ids[j], SPFILE)
        if kind == "trunc":
            with open(fn, "rb") as f:
                raw = f.read()
            with open(fn, "wb") as f:
                f.write(raw[:arg])
        elif kind == "byte":
            off, b = arg
            with open(fn, "rb") as f:
                raw = f.read()
            with open(fn, "wb") as f:
                f.write(raw[:off] + b + raw[off + 1:])
        elif kind == "delete":
            os.remove(fn)
        elif kind == "replace":
            with open(fn, "wb") as f:
                f.write(arg)
        elif kind == "swap":
            other = os.path.join(ws, ids[arg], SPFILE)
            tmp = fn + ".swap"
            os.replace(fn, tmp)
            os.replace(other, fn)
            os.replace(tmp, other)
        elif kind == "rename":
            os.replace(os.path.join(ws, ids[j]), os.path.join(ws, arg))
        else:
            raise ValueError(kind)


def _norm_dmg(dmg):
    out = []
    for j, k, a in dmg:
        if k == "byte":
            a = (int(a[0]), bytes(a[1]))
        elif k == "replace":
            a = bytes(a)
        out.append((j, k, a))
    return out


def _json_dmg(dmg):
    out = []
    for j, k, a in dmg:
        if k == "byte":
            a = [a[0], list(a[1])]
        elif k == "replace":
            a = list(a)
        out.append([j, k, a])
    return out


def eval_late(item):
    """repair() through every combination of {long-lived session that read the cache file earlier, fresh session} x
    {whole project, explicit job_ids} x damage kind, for a job that entered the persistent cache AFTER the long-lived
    session had read it: the state point is known from the cache file, so the job must be restored."""
    import signac
    from signac.errors import JobsCorruptedError  # noqa

    _, session_kind, selection, damage = item
    sps = [{"a": 1}] + BYSTANDERS
    tpl = _template(sps, True)
    viol = []
    late_sp = {"late": True, "n": [1, 2]}
    with scratch.fresh("c09l") as root:
        d = os.path.join(root, "p")
        shutil.copytree(tpl, d, symlinks=True)
        old = signac.Project(d)
        old.open_job(id=canon.job_id(sps[1])).statepoint()  # consults the cache file as it is now
        other = signac.Project(d)
        lj = other.open_job(late_sp).init()
        lj.doc["late"] = 1
        other.update_cache()
        fn = os.path.join(d, "workspace", lj.id, SPFILE)
        if damage == "delete":
            os.remove(fn)
        elif damage == "truncate":
            with open(fn, "r+b") as f:
                f.truncate(5)
        else:
            with open(fn, "wb") as f:
                f.write(b'{"someone": "else"}')
        p = old if session_kind == "long-lived" else signac.Project(d)
        try:
            p.repair(job_ids=[lj.id]) if selection == "job_ids" else p.repair()
            outcome = "ok"
        except Exception as e:  # noqa
            outcome = f"{type(e).__name__}: {e}"
        dam, val, why = classify_dir(os.path.join(d, "workspace"), lj.id)
        if dam or not canon.typed_eq(val, late_sp) or outcome != "ok":
            viol.append({"sig": {"kind": "repair-does-not-restore", "late_cache_entry": True, "selection": selection,
                                 "session": session_kind},
                         "scenario": "late", "input": {"late": True, "session": session_kind, "selection": selection, "damage": damage},
                         "expected": "job restored from the persistent cache", "observed": f"{outcome}; directory now: {why}",
                         "msg": f"a job listed in the cache file ({damage} state point): repair({'job_ids=[id]' if selection == 'job_ids' else ''}) "
                                f"through a {session_kind} session ended with {outcome}; directory now: {why}"})
    return {"cls": f"late:{session_kind}:{selection}", "viol": viol, "n": 1, "nt": f"late|{session_kind}|{selection}|{damage}"}


def evaluate(item):
    import signac
    from signac.errors import JobsCorruptedError

    if item and item[0] == "late":
        return eval_late(item)
    sps, cache, dmg = item[:3]
    order = item[3] if len(item) > 3 else "sorted"
    with env.listing_order(order):
        return _evaluate(sps, cache, dmg, order)


def _evaluate(sps, cache, dmg, order):
    import signac
    from signac.errors import JobsCorruptedError

    dmg = _norm_dmg(dmg)
    ids = [canon.job_id(sp) for sp in sps]
    true_sp = dict(zip(ids, sps))
    tpl = _template(sps, cache)
    viol = []
    inp = {"statepoints": sps, "cache": cache, "damage": _json_dmg(dmg), "listing_order": order}

    def bad(kind, msg, expected=None, observed=None, **extra):
        viol.append({"sig": dict(kind=kind, **extra), "scenario": "single" if len(dmg) == 1 else "multi",
                     "input": inp, "expected": expected, "observed": observed, "msg": msg})

    with scratch.fresh("c09") as root:
        d = os.path.join(root, "p")
        shutil.copytree(tpl, d, symlinks=True)
        ws = os.path.join(d, "workspace")
        before_payloads, _ = payloads(ws)
        # a session that got to know every job before the damage happened (its caches are warm)
        warm = signac.Project(d)
        try:
            for i in ids:
                warm.open_job(id=i).statepoint()
            [j.statepoint() for j in warm]
        except Exception:  # noqa
            warm = None
        apply_damage(ws, ids, dmg)
        names = sorted(os.listdir(ws))
        verdict = {n: classify_dir(ws, n) for n in names}
        damaged = {n for n, v in verdict.items() if v[0]}
        outcome = tuple(sorted(v[2] for v in verdict.values()))

        # 1. check() names exactly the damaged directories
        p = signac.Project(d)
        try:
            p.check()
            got = set()
            exc = None
        except JobsCorruptedError as e:
            got = set(e.job_ids)
            exc = None
        except Exception as e:  # noqa
            got, exc = None, f"{type(e).__name__}: {e}"
        if exc is not None:
            bad("check-raises-other", f"check() raised {exc}", sorted(damaged), exc)
        elif got != damaged:
            kind = "check-misses-damage" if damaged - got else "check-false-alarm"
            bad(kind, f"check() named {sorted(got)}, independent classification says {sorted(damaged)} "
                      f"({ {n: verdict[n][2] for n in names} })", sorted(damaged), sorted(got))

        if warm is not None and exc is None:
            try:
                warm.check()
                wgot = set()
            except JobsCorruptedError as e:
                wgot = set(e.job_ids)
            except Exception as e:  # noqa
                wgot = {f"{type(e).__name__}: {e}"}
            if wgot != damaged:
                bad("check-misses-damage" if damaged - wgot else "check-false-alarm",
                    f"check() through a session that had read every state point before the damage named {sorted(wgot)}, "
                    f"independent classification says {sorted(damaged)}", sorted(damaged), sorted(wgot), warm_session=True)

        # 2. opening by id never yields a state point whose hash differs from the id
        for n in names:
            for via in ("statepoint", "cached_statepoint"):
                p2 = signac.Project(d)
                job = None
                try:
                    job = p2.open_job(id=n)
                    val = job.statepoint() if via == "statepoint" else dict(job.cached_statepoint)
                except Exception:
                    if job is None:
                        continue
                    # a second look through the SAME handle must not succeed with a wrong value either
                    try:
                        val = job.statepoint() if via == "statepoint" else dict(job.cached_statepoint)
                        via = via + "/second-access-on-same-handle"
                    except Exception:
                        continue
                try:
                    ok = canon.job_id(canon.plain(val)) == n
                except Exception:
                    ok = False
                if not ok:
                    bad("open-yields-wrong-statepoint",
                        f"open_job(id={n}).{via} returned {val!r} whose hash is not the id "
                        f"(dir verdict: {verdict[n][2]}, cache={cache})", "raise or hash == id", repr(val), via=via)
            # iteration must not hand out a wrong state point either
        p3 = signac.Project(d)
        try:
            for job in p3:
                try:
                    val = job.statepoint()
                except Exception:
                    continue
                if canon.job_id(canon.plain(val)) != job.id:
                    bad("open-yields-wrong-statepoint", f"iteration yields {job.id} with state point {val!r}",
                        "raise or hash == id", repr(val), via="iter")
        except Exception:
            pass

        # 3. repair()
        cached_ids = set(ids) if cache else set()
        restorable, hopeless = {}, set()
        for n in damaged:
            dam, val, why = verdict[n]
            if n in cached_ids:
                restorable[n] = n  # directory n must validate with its true state point afterwards
            elif why == "hash-mismatch" and isinstance(val, dict):
                try:
                    tid = canon.job_id(val)
                except Exception:
                    tid = None
                if tid in true_sp and canon.typed_eq(val, true_sp[tid]) and tid not in names:
                    restorable[n] = tid  # intact file in a misnamed directory
                else:
                    hopeless.add(n)
            else:
                hopeless.add(n)
        p4 = signac.Project(d)
        try:
            p4.repair()
            rexc = None
        except JobsCorruptedError as e:
            rexc = ("JobsCorruptedError", sorted(e.job_ids))
        except Exception as e:  # noqa
            rexc = (type(e).__name__, str(e))
        # Only restorable jobs carry an obligation (the property is silent about the others): an
        # exception of repair() is a violation only when every damaged job is restorable.
        if not hopeless and rexc is not None:
            bad("repair-fails-on-restorable", f"all damaged jobs are restorable {restorable} but repair() raised {rexc}",
                "success", list(rexc))
        names_after = sorted(os.listdir(ws))
        for n, target in restorable.items():
            dam, val, why = classify_dir(ws, target) if target in names_after else (True, None, "absent")
            if dam or not canon.typed_eq(val, true_sp[target]):
                bad("repair-does-not-restore",
                    f"damaged job {n} ({verdict[n][2]}, restorable via {'cache' if n in cached_ids else 'intact file'}) "
                    f"is not valid under id {target} after repair() (now: {why}); repair outcome {rexc}; "
                    f"hopeless={sorted(hopeless)}",
                    "valid job " + target, why, alongside_unrestorable=bool(hopeless))
        if not hopeless:
            try:
                signac.Project(d).check()
            except Exception as e:  # noqa
                bad("check-fails-after-repair", f"check() after repair(): {type(e).__name__}: {e}", "pass", repr(e))
        # the session that ran repair() now refreshes the persistent cache: later sessions must still never be
        # handed a state point whose hash differs from the id
        try:
            p4.update_cache()
        except Exception:
            pass
        for n in sorted(os.listdir(ws)):
            try:
                val = signac.Project(d).open_job(id=n).statepoint()
            except Exception:
                continue
            try:
                ok = canon.job_id(canon.plain(val)) == n
            except ValueError:
                ok = True  # a non-finite float (damaged digits such as 1e345): outside the JSON value domain of the oracle
            except Exception:
                ok = False
            if not ok:
                bad("open-yields-wrong-statepoint", f"after repair() + update_cache() in one session, a fresh session's "
                    f"open_job(id={n}).statepoint() returns {val!r} whose hash is not the id", "raise or hash == id", repr(val),
                    via="after-repair-update-cache")
        after_payloads, _ = payloads(ws)
        if after_payloads != before_payloads:
            bad("repair-changes-data-files", "documents / data files differ after repair (modulo directory renames)",
                len(before_payloads), len(after_payloads))
        # undamaged jobs untouched
        for n in names:
            if n not in damaged:
                if classify_dir(ws, n)[0]:
                    bad("repair-breaks-intact-job", f"intact job {n} no longer validates after repair", "intact", "damaged")
    return {"cls": "|".join(outcome) + f"|cache={cache}", "viol": viol, "n": 1,
            "nt": (tuple(sorted(verdict[n][2] for n in damaged)), cache, tuple(k for _, k, _ in dmg)),
            "sample": inp}


def sp_bytes(sp):
    # the exact bytes signac writes (measured once on a template, not assumed)
    tpl = _template([sp] + BYSTANDERS, False)
    with open(os.path.join(tpl, "workspace", canon.job_id(sp), SPFILE), "rb") as f:
        return f.read()


def typed_twins(sp):
    """Other valid JSON that Python compares EQUAL to sp but that is another value (and hashes to another id): one number
    or boolean re-typed (1 -> 1.0, 1 -> true, 0.5 -> 5e-1 is the same value and not included, true -> 1)."""
    def variants(v):
        if isinstance(v, bool):
            yield int(v)
        elif isinstance(v, int):
            yield float(v)
            if v in (0, 1):
                yield bool(v)
        elif isinstance(v, float) and v == int(v):
            yield int(v)
        elif isinstance(v, dict):
            for k in v:
                for x in variants(v[k]):
                    yield dict(v, **{k: x})
        elif isinstance(v, list):
            for i in range(len(v)):
                for x in variants(v[i]):
                    yield v[:i] + [x] + v[i + 1:]
    seen = set()
    for t in variants(sp):
        if canon.job_id(t) != canon.job_id(sp):
            raw = json.dumps(t).encode()
            if raw not in seen:
                seen.add(raw)
                yield raw


def universe(tier):
    quick = tier == "quick"
    shapes = SHAPES
    for session_kind in ("long-lived", "fresh"):
        for selection in ("all", "job_ids"):
            for damage in ("delete", "truncate", "replace"):
                yield ("late", session_kind, selection, damage)
    for cache in (False, True):
        for sp in shapes:
            sps = [sp] + BYSTANDERS
            raw = sp_bytes(sp)
            other = json.dumps(BYSTANDERS[0]).encode()
            for off in range(len(raw)):
                yield (sps, cache, [(0, "trunc", off)])
            for off in range(len(raw)):
                for b in REPL:
                    if raw[off:off + 1] != b:
                        yield (sps, cache, [(0, "byte", (off, list(b)))])
            yield (sps, cache, [(0, "delete", None)])
            for rep in (b"{}", b"[]", b"1", b"null", other, json.dumps(sp, indent=2).encode(),
                        json.dumps(dict(reversed(list(sp.items())))).encode(), raw + b"\n", b" " + raw) + tuple(typed_twins(sp)):
                yield (sps, cache, [(0, "replace", list(rep))])
            yield (sps, cache, [(0, "swap", 1)])
            yield (sps, cache, [(0, "rename", UNUSED_ID)])
            yield (sps, cache, [(0, "rename", UNUSED_ID), (1, "delete", None)])
    # multi-job subsets over one representative per damage class
    base = [{"a": 1, "m": 0}, {"a": 2, "m": 0}, {"a": 3, "m": 0}, {"by": 1}]
    classes = [None, ("trunc", 4), ("byte", (1, list(b"x"))), ("byte", (6, list(b"7"))), ("delete", None),
               ("replace", list(b"{}")), ("rename", None), ("replace", list(b"1")), ("replace", list(b"null"))]
    unused = ["0123456789abcdef0123456789abcde%x" % i for i in range(3)]
    for cache in (False, True):
        for combo in itertools.product(range(len(classes)), repeat=3):
            dmg = []
            for j, c in enumerate(combo):
                if classes[c] is None:
                    continue
                k, a = classes[c]
                dmg.append((j, k, unused[j] if k == "rename" else a))
            if len(dmg) >= 2:
                yield (base, cache, dmg, "sorted")
                yield (base, cache, dmg, "reversed")
        for c in range(len(classes)):
            dmg = [(0, "swap", 1)]
            if classes[c] is not None:
                k, a = classes[c]
                dmg.append((2, k, unused[2] if k == "rename" else a))
            yield (base, cache, dmg)


def run(ctx):
    report = Report(LEVEL)
    tot = engine_i.run_items(ctx, universe(ctx.tier), evaluate, chunk=32)
    engine_i.fill_report(report, tot, rule=(
        "for each state point shape: truncation at every byte offset, every (offset, one of 16 replacement bytes), "
        "deletion, 9 replacement documents, swap, directory rename; then every assignment of 9 damage classes to 3 jobs "
        "(>=2 damaged) and swaps combined with each class; all with and without a persistent cache. "
        "distinct_nontrivial = distinct (multiset of independent damage verdicts, cache mode, damage kinds)"),
        extra={"bounds": {"shapes": len(SHAPES), "multi_job_subset": 3},
               "alphabet_sizes": {"replacement_bytes": len(REPL), "damage_classes": 9}},
        floor_distinct=10)
    report.assumptions += ["'parses' means Python's json.loads of the UTF-8 decoded file",
                           "damage is judged by canon.job_id(parsed) != directory name, independent of signac",
                           "a job is restorable iff its id is in the persistent cache or its intact file sits in a misnamed directory"]
    return report


def replay(payload, ctx):
    inp = payload["input"]
    if inp.get("late"):
        return eval_late(("late", inp["session"], inp["selection"], inp["damage"]))["viol"]
    dmg = []
    for j, k, a in inp["damage"]:
        if k == "byte":
            a = (a[0], a[1])
        dmg.append((j, k, a))
    return evaluate((inp["statepoints"], inp["cache"], dmg, inp.get("listing_order", "sorted")))["viol"]
