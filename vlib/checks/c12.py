"""C12 — concurrent processes initialise jobs and write documents without corruption.

Engine S, interleaving search: 2-3 real processes are stepped one file-system call at a time; every
schedule is explored by depth-first search with state caching (state = canonical disk tree + per actor
the digest of everything its calls observed + the pending call).  2 actors: exhaustive, no preemption
bound.  3 actors: exhaustive up to 2 preemptions.
Oracle: every actor exits without exception; every value read is one a sequential execution produces;
the final tree equals the final tree of SOME sequential order of the same actor bodies (differential,
run on the real code); check() passes; a document write completed before a read began is seen by it.
"""
import itertools
import json
import os
import shutil

from .. import canon, engine_i, scratch
from ..engine_s import controller as C
from ..runner import Report

PROPERTY = "C12"
LEVEL = "model_checking"
S_, T_, E_ = {"c": 1}, {"c": 2}, {}  # E_: the empty state point is a valid state point too
PRE = [{"pre": 1}, {"pre": 2}]


def actors(root):
    import signac

    def I(sp):  # noqa
        def body(ctx):
            p = signac.Project(root)
            C.mark("BEGIN")
            p.open_job(sp).init()
            C.mark("END")
            return "init"
        return body

    def W(sp, k, v):  # noqa
        def body(ctx):
            p = signac.Project(root)
            C.mark("BEGIN")
            job = p.open_job(sp).init()
            job.doc[k] = v
            C.mark("END")
            return "wrote"
        return body

    def R(sp):  # noqa
        def body(ctx):
            p = signac.Project(root)
            job = p.open_job(sp)
            C.mark("BEGIN")
            v = canon.plain(job.doc())
            C.mark("END")
            return ["read", v]
        return body

    def A(sp, value):  # noqa  (whole-document assignment: one replacement, never an empty document in between)
        def body(ctx):
            p = signac.Project(root)
            job = p.open_job(sp)
            C.mark("BEGIN")
            job.doc = dict(value)
            C.mark("END")
            return "assigned"
        return body

    def X():  # noqa
        # a maintenance sweep (`for job in project: job.init()`) is not one of the property's actors and may itself fail
        # when it meets a half-created job; it is only here as an environment for the others, its own failure is ignored
        def body(ctx):
            p = signac.Project(root)
            C.mark("BEGIN")
            try:
                for job in p:
                    job.init()
            except Exception:  # noqa
                pass
            C.mark("END")
            return "swept"
        return body

    def L():  # noqa
        def body(ctx):
            p = signac.Project(root)
            C.mark("BEGIN")
            n = len(p)
            ids = sorted(j.id for j in p)
            C.mark("END")
            return ["listed", n, len(ids)]
        return body
    return I, W, R, L, A, X


def scenario_table(root):
    I, W, R, L, A, X = actors(root)  # noqa
    return {
        "I(s)|X": [I(S_), X()],
        # the same job, spelled with another key order by the second process
        "I(ab)|I(ba)": [I({"a": 1, "b": {"x": 1, "y": 2}}), I({"b": {"y": 2, "x": 1}, "a": 1})],
        "A(p)|R(p)": [A(PRE[0], {"k": 1, "z": [1, 2]}), R(PRE[0])],
        "A(p)|W(p)": [A(PRE[0], {"k": 1}), W(PRE[1], "k", 2)],
        "I(s)|I(s)": [I(S_), I(S_)],
        "I(s)|I(t)": [I(S_), I(T_)],
        "I(e)|W(t)": [I(E_), W(T_, "k", 2)],
        "I(s)|L": [I(S_), L()],
        "W(s)|W(t)": [W(S_, "k", 1), W(T_, "k", 2)],
        "W(s)|R(s)": [W(S_, "k", 1), R(S_)],
        "W(s,k1)|I(s)": [W(S_, "k1", 1), I(S_)],
        "W(s)|L": [W(S_, "k", 1), L()],
        "I(s)|I(s)|I(s)": [I(S_), I(S_), I(S_)],
        "W(s)|W(t)|L": [W(S_, "k", 1), W(T_, "k", 2), L()],
        "W(s)|R(s)|I(t)": [W(S_, "k", 1), R(S_), I(T_)],
    }


QUICK = [("I(s)|I(s)", "empty"), ("I(s)|I(t)", "empty"), ("I(e)|W(t)", "populated"), ("I(s)|L", "populated"), ("I(s)|L", "empty"), ("W(s)|W(t)", "populated"),
         ("W(s)|R(s)", "populated"), ("W(s,k1)|I(s)", "empty"), ("A(p)|R(p)", "populated"), ("I(s)|X", "populated"), ("I(ab)|I(ba)", "populated")]


def setup(tpl, start):
    import signac

    os.makedirs(tpl)
    p = signac.init_project(tpl)
    if start == "populated":
        for sp in PRE:
            p.open_job(sp).init().doc["pre"] = True
    else:
        shutil.rmtree(os.path.join(tpl, "workspace"), ignore_errors=True)  # workspace does not exist yet


def sequential_references(tpl, root, bodies):
    """Final trees and actor return values of every sequential order of the same bodies (real code)."""
    trees, returns, traces = set(), {}, []
    for order in itertools.permutations(range(len(bodies))):
        C.restore(tpl, root)
        ex = C.Execution(root, bodies).start()
        try:
            for i in order:
                ex.run_all(i)
            trees.add(ex.tree())
            for a in ex.actors:
                returns.setdefault(a.idx, []).append(a.outcome)
                traces.append(a.trace)
        finally:
            ex.kill()
    return trees, returns, C.written_paths(traces)


_CUR = {"name": None, "start": None}
_WORKER = {}


def _prepare():
    """Per worker and scenario: template, bodies, sequential references (computed once)."""
    key = (os.getpid(), _CUR["name"], _CUR["start"])
    if key in _WORKER:
        return _WORKER[key]
    base = os.path.join(scratch.worker_dir(), "c12-%d" % len(_WORKER))
    shutil.rmtree(base, ignore_errors=True)
    os.makedirs(base)
    root, tpl = os.path.join(base, "run"), os.path.join(base, "tpl")
    bodies = scenario_table(root)[_CUR["name"]]
    setup(tpl, _CUR["start"])
    trees, returns, written = sequential_references(tpl, root, bodies)
    w = dict(root=root, tpl=tpl, bodies=bodies, trees=trees, returns=returns, written=written)
    _WORKER[key] = w
    return w


def execute(hist):
    import signac

    name, start = _CUR["name"], _CUR["start"]
    w = _prepare()
    root, tpl, bodies, trees, returns = w["root"], w["tpl"], w["bodies"], w["trees"], w["returns"]
    viol = []
    sched_s = "".join(chr(65 + x) for x in hist)

    def bad(kind, msg, **extra):
        viol.append({"sig": dict(kind=kind, **extra), "scenario": f"{name}/{start}",
                     "input": {"scenario": name, "start": start, "schedule": list(hist)},
                     "expected": "outcome of some sequential execution", "observed": msg, "msg": msg})
    for i, outs in returns.items():
        for o in outs:
            if o[0] != "ok":
                bad("sequential-run-fails", f"actor {i} fails even when run alone in sequence: {o[:3]}")
    if viol:
        return {"key": "broken", "enabled": [], "viol": viol, "n": 1, "cls": "broken"}
    allowed_returns = {i: [o[1] for o in outs] for i, outs in returns.items()}
    is_reader = {i: any(isinstance(o[1], list) and o[1][:1] == ["read"] for o in outs) for i, outs in returns.items()}
    writer_idx = [i for i, outs in returns.items() if outs[0][1] == "wrote"]
    bound = 2 if len(bodies) >= 3 else None
    C.restore(tpl, root)
    ex = C.Execution(root, bodies, written=w["written"]).start()
    try:
        pre, last = 0, None
        for a in hist:
            if last is not None and a != last and last in ex.enabled():
                pre += 1
            ex.grant(a)
            last = a
        flags = []
        for wi in writer_idx:
            for r in range(len(ex.actors)):
                if is_reader.get(r):
                    we, rb = ex.actors[wi].window_clock[1], ex.actors[r].window_clock[0]
                    flags.append((wi, r, we is not None and rb is not None and we <= rb,
                                  rb is not None and (we is None or we > rb)))
        key = ex.state(extra=(tuple(flags), pre if bound is not None else 0, last if bound is not None else None))
        en = ex.enabled()
        if last in en:
            en = [last] + [x for x in en if x != last]
        if bound is not None:
            en = [x for x in en if not (last in en and x != last and pre + 1 > bound)]
        if not ex.enabled():
            for a in ex.actors:
                if a.outcome[0] != "ok":
                    bad("actor-fails-under-concurrency", f"schedule {sched_s}: actor {a.idx} ended with {a.outcome[:3]}",
                        exc=a.outcome[1] if a.outcome[0] == "exc" else "died")
                    continue
                got = a.outcome[1]
                if isinstance(got, list) and got[:1] == ["listed"]:
                    # len() and iteration are two separate listings: each one is judged on its own
                    ok = all(any(o[k] == got[k] for o in allowed_returns[a.idx]) for k in (1, 2))
                else:
                    ok = any(canon.typed_eq(got, o) for o in allowed_returns[a.idx])
                if not ok:
                    bad("value-no-sequential-execution-produces", f"schedule {sched_s}: actor {a.idx} returned {got!r}, "
                        f"sequential runs return {allowed_returns[a.idx]!r}")
            if ex.tree() not in trees:
                t = next(iter(trees))
                diffs = canon.snap_diff({r: (k, h) for r, k, h in t}, {r: (k, h) for r, k, h in ex.tree()})
                bad("final-state-matches-no-sequential-order", f"schedule {sched_s}: final tree differs from every "
                    f"sequential order, e.g. {diffs[:5]}")
            try:
                signac.Project(root).check()
            except Exception as e:  # noqa
                bad("check-fails-after-concurrent-run", f"schedule {sched_s}: check() raised {type(e).__name__}: {e}")
            for wi in writer_idx:
                for r in range(len(ex.actors)):
                    if is_reader.get(r) and ex.actors[r].outcome[0] == "ok":
                        we, rb = ex.actors[wi].window_clock[1], ex.actors[r].window_clock[0]
                        if we is not None and rb is not None and we <= rb:
                            val = ex.actors[r].outcome[1][1]
                            if not (isinstance(val, dict) and val.get("k") == 1):
                                bad("completed-write-not-seen", f"schedule {sched_s}: the write finished before the read "
                                    f"began but the read returned {val!r}")
        n = sum(len(a.trace) for a in ex.actors)
        leaf = not ex.enabled()
    finally:
        ex.kill()
    return {"key": key, "enabled": en, "viol": viol, "n": n, "cls": "leaf" if leaf else "step"}


def _exec(hist):
    return execute(tuple(hist))


def universe(tier):
    if tier == "quick":
        yield from QUICK
        return
    for name in scenario_table("/nonexistent"):
        for start in ("empty", "populated"):
            yield (name, start)


def run(ctx):
    from .. import engine_h

    C.ensure_preloaded()
    report = Report(LEVEL)
    per = {}
    for name, start in universe(ctx.tier):
        _CUR["name"], _CUR["start"] = name, start
        st = engine_h.explore(ctx, _exec, max_depth=400, chunk=4, selfcheck_every=211)
        engine_h.fill_report(report, st)
        per[f"{name}/{start}"] = {"states": st.states, "transitions": st.transitions, "complete_schedules": st.cls.get("leaf", 0),
                                  "closed": st.closed, "longest_schedule": st.max_depth}
        if not st.closed:
            report.harness_errors.append(f"{name}/{start}: schedule space not closed within the depth guard")
    cov = report.coverage
    cov["per_scenario"] = per
    cov["bounds"] = {"two_actor_scenarios": "exhaustive (no preemption bound)", "three_actor_scenarios": "<= 2 preemptions",
                     "scenarios": len(per)}
    cov["rule"] = ("per scenario: level-synchronous search over schedules of the actors' file-system calls with state caching "
                   "(state = canonical disk tree + per actor digest of everything its calls observed + pending call); every "
                   "schedule prefix is re-executed on real processes through the libc shim; sequential reference outcomes come "
                   "from running the same bodies in every order on the real code")
    cov["exhaustive"] = True
    cov.pop("levels", None)
    report.assumptions += ["single file-system calls are atomic between processes (local POSIX file system, not NFS)",
                           "processes share nothing but the file system; actors are deterministic functions of what their "
                           "calls observe (existence, type, size, content, directory listing - not mtimes)",
                           "observing calls on paths that no actor ever mutates are not scheduling points (validated at run time)",
                           "three-actor scenarios are exhaustive only up to 2 preemptions"]
    return report


def replay(payload, ctx):
    C.ensure_preloaded()
    inp = payload["input"]
    _CUR["name"], _CUR["start"] = inp["scenario"], inp["start"]
    sched = inp["schedule"]
    if isinstance(sched, str):
        sched = [ord(c) - 65 for c in sched]
    return _exec(sched)["viol"]
