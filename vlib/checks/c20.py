"""C20 — incompatible schema versions are refused, and migration preserves every job.

Engine I: the full product of legacy configurations - declared schema version {absent, 0, 1, 2, 3, 10}
x layout {v1 signac.rc, v2 .signac/config} x project name {None, plain, spaces, punctuation} x
workspace_dir {default, custom, nested custom, custom colliding with an existing 'workspace'} x
{v1 cache file, shell history} x job count.  Oracles: refusal (IncompatibleSchemaVersion from Project,
get_project and init_project, tree unchanged) and migration (same ids, typed state points, documents,
files; cache / history moved; project document = old + at most the name; no lock file; no-op on
up-to-date projects; RuntimeError and intact jobs on a colliding workspace).
"""
import gzip
import itertools
import json
import os
import shutil

from .. import canon, engine_i, scratch
from ..runner import Report

PROPERTY = "C20"
LEVEL = "exploration"
VERSIONS = ["absent", 0, 1, 2, 3, 10]
LAYOUTS = ["v1", "v2"]
NAMES = ["None", "plain_name", "name with spaces", "p, q = r # [x]"]
WORKSPACES = ["default", "ws", "a/b", "collide", "data/workspace"]
EXTRAS = [(False, False), (True, False), (False, True), (True, True)]
JOBS = [0, 1, 3]
SUPPORTED = 2
LOCK = ".SIGNAC_PROJECT_MIGRATION_LOCK"


def build(root, version, layout, name, wsmode, cache, history, njobs):
    """Create the legacy (or current) project. Returns {id: (sp, doc, files)} and the workspace relpath."""
    import signac
    from signac._vendor import configobj

    os.makedirs(root)
    wsrel = {"default": "workspace", "ws": "ws", "a/b": os.path.join("a", "b"), "collide": "ws",
             "data/workspace": os.path.join("data", "workspace")}[wsmode]
    if layout == "v2":
        wsrel = "workspace"
    # jobs are produced by signac itself in a side project and moved into place
    side = root + "-side"
    sp_ = signac.init_project(side)
    content = {}
    for i in range(njobs):
        sp = {"i": i, "nested": {"k": [i, "x"]}}
        job = sp_.open_job(sp).init()
        job.doc["d"] = {"i": i}
        os.makedirs(job.fn("sub"), exist_ok=True)
        with open(job.fn("sub/f.bin"), "wb") as f:
            f.write(bytes([i + 1]) * 20)
        content[job.id] = (sp, {"d": {"i": i}}, canon.snapshot(job.path))
    os.makedirs(os.path.join(root, os.path.dirname(wsrel)) if os.path.dirname(wsrel) else root, exist_ok=True)
    shutil.move(os.path.join(side, "workspace"), os.path.join(root, wsrel))
    shutil.rmtree(side)
    if wsmode == "collide" and layout == "v1":
        os.makedirs(os.path.join(root, "workspace", "precious"))
    if njobs == 0 and layout == "v2":
        shutil.rmtree(os.path.join(root, "workspace"))  # a hand-made / freshly cloned project without workspace directory
    with open(os.path.join(root, "signac_project_document.json"), "w") as f:
        json.dump({"pd": 1}, f)
    if layout == "v1":
        cfg = configobj.ConfigObj()
        cfg.filename = os.path.join(root, "signac.rc")
        cfg["project"] = name
        if wsmode != "default":
            cfg["workspace_dir"] = wsrel
        if version != "absent":
            cfg["schema_version"] = str(version)
        cfg.write()
        if cache:
            with gzip.open(os.path.join(root, ".signac_sp_cache.json.gz"), "wb") as f:
                f.write(json.dumps({jid: c[0] for jid, c in content.items()}).encode())
        if history:
            with open(os.path.join(root, ".signac_shell_history"), "w") as f:
                f.write("print(project)\n")
    else:
        os.makedirs(os.path.join(root, ".signac"))
        cfg = configobj.ConfigObj()
        cfg.filename = os.path.join(root, ".signac", "config")
        if version != "absent":
            cfg["schema_version"] = str(version)
        cfg.write()
        if cache:
            with gzip.open(os.path.join(root, ".signac", "statepoint_cache.json.gz"), "wb") as f:
                f.write(json.dumps({jid: c[0] for jid, c in content.items()}).encode())
        if history:
            with open(os.path.join(root, ".signac", "shell_history"), "w") as f:
                f.write("print(project)\n")
    return content, wsrel


def evaluate(item):
    import signac
    from signac.errors import IncompatibleSchemaVersion
    from signac.migration import apply_migrations

    version, layout, name, wsmode, cache, history, njobs = item
    viol = []
    inp = {"version": version, "layout": layout, "name": name, "workspace": wsmode, "cache": cache, "history": history, "jobs": njobs}
    declared = 0 if version == "absent" and layout == "v1" else (1 if version == "absent" else version)
    outcome = []

    def bad(kind, msg, **extra):
        viol.append({"sig": dict(kind=kind, **extra), "scenario": layout, "input": inp, "expected": "see message",
                     "observed": msg, "msg": msg})
    if layout == "v1" and version == SUPPORTED:
        return {"skip": "a v1 layout declaring the current schema version is an inconsistent configuration", "viol": [], "n": 0}
    with scratch.fresh("c20") as base:
        root = os.path.join(base, "proj")
        # the directory is looked at while it is still empty (nothing there: LookupError); whatever signac remembers from
        # that must not matter once a project has appeared in it
        os.makedirs(root)
        for probe in (lambda: signac.get_project(root), lambda: signac.get_project(root, search=False), lambda: signac.Project(root)):
            try:
                probe()
            except LookupError:
                pass
        os.rmdir(root)
        content, wsrel = build(root, version, layout, name, wsmode, cache, history, njobs)
        before = canon.snapshot(root)
        os.chdir(base)
        n = 0
        # ---- refusal
        if declared != SUPPORTED:
            calls = {"Project(path)": lambda: signac.Project(root), "get_project(path)": lambda: signac.get_project(root),
                     "get_project(search=False)": lambda: signac.get_project(root, search=False),
                     "init_project(path)": lambda: signac.init_project(root)}
            sub = os.path.join(root, wsrel)
            if os.path.isdir(sub):
                calls["get_project(subdir)"] = lambda: signac.get_project(sub)
                deep = os.path.join(root, "extra", "deep", "deeper", "deepest")  # four levels below the legacy root
                os.makedirs(deep)
                before = canon.snapshot(root)
                calls["get_project(deep)"] = lambda: signac.get_project(deep)

            def in_cwd(f):
                def g():
                    os.chdir(root)
                    try:
                        return f()
                    finally:
                        os.chdir(base)
                return g
            # the same entry points with the path left at its default (the current directory)
            calls["Project() in cwd"] = in_cwd(lambda: signac.Project())
            calls["get_project() in cwd"] = in_cwd(lambda: signac.get_project())
            calls["init_project() in cwd"] = in_cwd(lambda: signac.init_project())
            for cname, fn in calls.items():
                n += 1
                try:
                    fn()
                    got = "opened"
                except IncompatibleSchemaVersion:
                    got = "IncompatibleSchemaVersion"
                except Exception as e:  # noqa
                    got = type(e).__name__
                # with search=False a legacy (v1 layout) directory is simply "not a project here": LookupError also
                # leaves it unopened and unmodified, which is what the property demands
                if got == "LookupError" and cname == "get_project(search=False)" and layout == "v1":
                    got = "IncompatibleSchemaVersion"
                if got != "IncompatibleSchemaVersion":
                    bad("incompatible-version-not-refused", f"{cname} on a project declaring version {declared} ({layout}): {got}",
                        call=cname.split("(")[0], got=got, newer=declared > SUPPORTED)
                after = canon.snapshot(root)
                if after != before:
                    bad("refused-project-modified", f"{cname} changed the tree: {canon.snap_diff(before, after)[:4]}",
                        call=cname.split("(")[0])
                    before = after
            outcome.append("refused")
        # ---- migration
        n += 1
        try:
            import contextlib
            import io
            with contextlib.redirect_stderr(io.StringIO()):
                apply_migrations(root)
            mig = "ok"
        except Exception as e:  # noqa
            mig = type(e).__name__
        after = canon.snapshot(root)
        outcome.append("migrate:" + mig)
        if LOCK in after:
            bad("lock-file-left-behind", "the migration lock file remains", migration=mig)
        after = {k: v for k, v in after.items() if k != LOCK}
        if declared == SUPPORTED:
            if mig != "ok" or after != before:
                bad("migration-of-current-project-not-noop", f"apply_migrations on an up-to-date project: {mig}, "
                    f"diff {canon.snap_diff(before, after)[:4]}")
        elif declared > SUPPORTED:
            if mig == "ok" or after != before:
                bad("newer-project-migrated-or-modified", f"apply_migrations on version {declared}: {mig}, diff "
                    f"{canon.snap_diff(before, after)[:4]}")
        elif layout == "v2":
            # a v2 layout declaring an old version is inconsistent: only require that no job is harmed
            jobs_now = {k: v for k, v in after.items() if k.startswith("workspace/")}
            if jobs_now != {k: v for k, v in before.items() if k.startswith("workspace/")}:
                bad("inconsistent-config-migration-harms-jobs", "jobs changed")
        else:
            collide = wsmode == "collide"
            if collide:
                if mig != "RuntimeError":
                    bad("colliding-workspace-not-reported", f"apply_migrations with workspace_dir 'ws' and an existing 'workspace': {mig}")
                for k, v in before.items():
                    if (k.startswith("ws/") or k.startswith("workspace/")) and after.get(k) != v:
                        bad("colliding-workspace-harms-data", f"{k} changed: {v} -> {after.get(k)}")
                        break
                # the refused migration must leave a project that is still recognised (and refused) as a legacy project ...
                snap = canon.snapshot(root)
                for cname, fn in (("Project", lambda: signac.Project(root)), ("get_project", lambda: signac.get_project(root)),
                                  ("init_project", lambda: signac.init_project(root))):
                    n += 1
                    try:
                        fn()
                        got = "opened"
                    except IncompatibleSchemaVersion:
                        got = "IncompatibleSchemaVersion"
                    except Exception as e:  # noqa
                        got = type(e).__name__
                    if got != "IncompatibleSchemaVersion" or canon.snapshot(root) != snap:
                        bad("legacy-project-unrecognised-after-refused-migration", f"after the refused migration {cname}() gives "
                            f"{got}; tree changed: {canon.snapshot(root) != snap}", call=cname, got=got)
                        snap = canon.snapshot(root)
                # ... and that can still be migrated once the collision is resolved
                try:
                    shutil.rmtree(os.path.join(root, "workspace"))
                    with contextlib.redirect_stderr(io.StringIO()):
                        apply_migrations(root)
                    got_ids = sorted(j.id for j in signac.Project(root))
                    if got_ids != sorted(content):
                        bad("migration-after-resolved-collision-loses-jobs", f"{got_ids} vs {sorted(content)}")
                except Exception as e:  # noqa
                    bad("migration-after-resolved-collision-fails", f"{type(e).__name__}: {e}", exc=type(e).__name__)
            else:
                if mig != "ok":
                    bad("migration-fails", f"apply_migrations on a legacy project failed: {mig}", name_class=NAMES.index(name),
                        workspace=wsmode)
                else:
                    try:
                        p = signac.Project(root)
                        got = {}
                        for job in p:
                            got[job.id] = (canon.plain(job.statepoint()), canon.plain(job.document()), canon.snapshot(job.path))
                        p.check()
                        pdoc = canon.plain(p.doc())
                    except Exception as e:  # noqa
                        bad("migrated-project-does-not-open", f"{type(e).__name__}: {e}", name_class=NAMES.index(name), workspace=wsmode)
                        got = None
                    if got is not None:
                        if set(got) != set(content):
                            bad("migration-loses-jobs", f"ids before {sorted(content)}, after {sorted(got)}", workspace=wsmode)
                        for jid in set(got) & set(content):
                            a, b = content[jid], got[jid]
                            if not canon.typed_eq(a[0], b[0]) or not canon.typed_eq(a[1], b[1]) or a[2] != b[2]:
                                bad("migration-changes-job", f"job {jid}: {a[:2]} vs {b[:2]}; files {canon.snap_diff(a[2], b[2])[:3]}")
                        want_doc = {"pd": 1}
                        if name != "None":
                            want_doc["signac_project_name"] = name
                        if not canon.typed_eq(pdoc, want_doc):
                            bad("project-document-wrong", f"project document after migration {pdoc}, expected {want_doc}",
                                name_class=NAMES.index(name))
                        if cache and ".signac/statepoint_cache.json.gz" not in after:
                            bad("cache-file-not-migrated", "the v1 cache file did not arrive at .signac/statepoint_cache.json.gz")
                        if cache and after.get(".signac/statepoint_cache.json.gz") != before.get(".signac_sp_cache.json.gz"):
                            bad("cache-file-not-migrated", "cache file content changed")
                        if history and after.get(".signac/shell_history") != before.get(".signac_shell_history"):
                            bad("history-file-not-migrated", "the shell history did not arrive at .signac/shell_history")
                        leftovers = [k for k in after if k in ("signac.rc", ".signac_sp_cache.json.gz", ".signac_shell_history")]
                        if leftovers:
                            bad("legacy-files-left-behind", f"{leftovers}")
                        # a second migration is a no-op
                        with contextlib.redirect_stderr(io.StringIO()):
                            try:
                                apply_migrations(root)
                                again = "ok"
                            except Exception as e:  # noqa
                                again = type(e).__name__
                        n += 1
                        again_snap = {k: v for k, v in canon.snapshot(root).items() if k != LOCK}
                        if again != "ok" or again_snap != after:
                            bad("second-migration-not-noop", f"{again}; {canon.snap_diff(after, again_snap)[:3]}")
        os.chdir("/")
    return {"cls": "|".join(outcome), "viol": viol, "n": n, "nt": json.dumps(inp, sort_keys=True), "sample": inp}


def universe(tier):
    jobs = [1] if tier == "quick" else JOBS
    for version, layout, name, wsmode, (cache, history), nj in itertools.product(VERSIONS, LAYOUTS, NAMES, WORKSPACES, EXTRAS, jobs):
        if layout == "v2" and (wsmode != "default" or name != "None"):
            continue  # the v2 layout has neither a name nor a configurable workspace
        yield (version, layout, name, wsmode, cache, history, nj)
    if tier == "quick":
        for version, layout in itertools.product(VERSIONS, LAYOUTS):
            for nj in (0, 3):
                yield (version, layout, "None", "default", True, True, nj)


def run(ctx):
    report = Report(LEVEL)
    tot = engine_i.run_items(ctx, universe(ctx.tier), evaluate, chunk=8)
    engine_i.fill_report(report, tot, rule=(
        "full product declared version {absent,0,1,2,3,10} x layout {v1,v2} x 4 project names x 4 workspace settings x "
        "{cache} x {history} x job counts (v2: name/workspace fixed); every configuration is built with the vendored configobj "
        "writer, probed with Project / get_project / init_project between whole-tree snapshots, then migrated. "
        "distinct_nontrivial = distinct configurations"), extra={"bounds": {"job_counts": [1] if ctx.quick else JOBS}},
        floor_distinct=50)
    report.assumptions += ["a v1 layout declaring the current version and a v2 layout declaring an old one are inconsistent "
                           "configurations: the first is skipped, the second only has to keep its jobs intact"]
    return report


def replay(payload, ctx):
    i = payload["input"]
    return evaluate((i["version"], i["layout"], i["name"], i["workspace"], i["cache"], i["history"], i["jobs"]))["viol"]
