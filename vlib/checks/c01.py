"""C01 — job id is the canonical, order-independent hash of the state point value.

Engine I.  Universe = (i) full atom product over flat mappings, (ii) all container
shapes up to a node bound with a focus leaf ranging over the whole atom alphabet.
For every value: every key insertion order, list/tuple spelling, dict / OrderedDict /
live synced-collection spelling.  Oracle: md5(canon_json(v)) from vlib.canon.
"""
import hashlib
import itertools
import json
import os
import subprocess
import sys
from collections import OrderedDict

from .. import canon, engine_i, scratch
from ..runner import Report

PROPERTY = "C01"
LEVEL = "exploration"

ATOMS = [None, True, False, 0, 1, -1, 2**53 - 1, 1.0, 0.5, -0.0, 1e-07, 1e22, "", "a", "1", "é",
         "\U0001F600", '\n"\\']
REDUCED = [0, "a", None]

GOLDEN = [
    ({"a": 0}, "9bfd29df07674bc4aa960cf661b5acd2"),
    ({"constant": 42, "diff1": 0, "diff2": 1}, "c4af2b26f1fd256d70799ad3ce3bdad0"),
    ({"constant": 42, "diff1": 1, "diff2": 1}, "b96b21fada698f8934d58359c72755c0"),
    ({"constant": 42, "diff1": 2, "diff2": 2}, "e4289419d2b0e57e4852d44a09f167c0"),
]


# ---------------------------------------------------------------- universe
def flat_values():
    for x in ATOMS:
        yield x
    for x in ATOMS:
        yield [x]
    for x in ATOMS:
        for y in ATOMS:
            yield [x, y]
    for x in ATOMS:
        yield {"c": x}


def flat_universe(quick):
    vals = list(flat_values())
    for k in ("a", "b"):
        for v in vals:
            yield {k: v}
    if quick:
        # a diagonal of the 2-key product (the full product is the thorough tier)
        for i, v in enumerate(vals):
            yield {"a": v, "b": vals[(i * 7 + 3) % len(vals)]}
        return
    for v in vals:
        for w in vals:
            yield {"a": v, "b": w}


def _shapes(budget, depth, top=False):
    """Yield shapes with exactly `budget` nodes: 'x' leaf | ('L', [shapes]) | ('M', [shapes])."""
    if top:
        kinds = [("M", 4)]
    else:
        if budget == 1:
            yield "x"
            yield ("L", [])
            yield ("M", [])
            return
        if depth == 0:
            return
        kinds = [("L", 2), ("M", 2)]
    if budget < 2:
        return
    for kind, maxk in kinds:
        for nk in range(1, maxk + 1):
            for split in _compositions(budget - 1, nk):
                for kids in itertools.product(*[list(_shapes(b, depth - 1)) for b in split]):
                    yield (kind, list(kids))


def _compositions(n, k):
    if k == 1:
        if n >= 1:
            yield (n,)
        return
    for first in range(1, n - k + 2):
        for rest in _compositions(n - first, k - 1):
            yield (first,) + rest


def _count_leaves(shape):
    if shape == "x":
        return 1
    return sum(_count_leaves(k) for k in shape[1])


def _build(shape, leaves):
    """Instantiate a shape with the iterator of leaf values."""
    if shape == "x":
        return next(leaves)
    kind, kids = shape
    if kind == "L":
        return [_build(k, leaves) for k in kids]
    return {key: _build(k, leaves) for key, k in zip("abcd", kids)}


def shaped_universe(quick):
    max_nodes, depth = (5, 2) if quick else (7, 3)
    for nodes in range(2, max_nodes + 1):
        for shape in _shapes(nodes, depth, top=True):
            nl = _count_leaves(shape)
            if nl == 0:
                yield _build(shape, iter(()))
                continue
            for focus in range(nl):
                others = nl - 1
                # every assignment of the reduced alphabet to <=2 other leaves, rotations beyond
                if others <= 2:
                    assigns = list(itertools.product(REDUCED, repeat=others))
                else:
                    assigns = [tuple(REDUCED[(r + i) % 3] for i in range(others)) for r in range(3)]
                for asg in assigns:
                    for atom in ATOMS:
                        leaves = list(asg)
                        leaves.insert(focus, atom)
                        yield _build(shape, iter(leaves))


KEYS = ["a", "B", "é", "", "10", "9", "a b", "\U0001F600", "Z", "_"]


def key_universe():
    """Mappings whose KEYS exercise ordering (code point order, digits, upper/lower case, non-ASCII, empty)."""
    vals = [0, "a", None, 1.0, [True]]
    for r in (2, 3):
        for ks in itertools.combinations(KEYS, r):
            for shift in range(len(vals)):
                yield {k: vals[(i + shift) % len(vals)] for i, k in enumerate(ks)}
    for k in KEYS:
        for k2 in KEYS:
            if k != k2:
                yield {k: {k2: 1, "a": 2}, "x": [{"n": 1}]} if k != "x" else {k: 1}


def universe(tier):
    quick = tier == "quick"
    for v in flat_universe(quick):
        yield v
    for v in key_universe():
        yield v
    for v in shaped_universe(quick):
        yield v
    yield {}
    for v, _ in GOLDEN:
        yield v
    # values whose JSON text is longer than any buffer or block size in sight (4 KiB, 8 KiB, 16 KiB)
    yield {"s": "x" * 4095 + "y" + "z" * 2000}
    yield {"l": list(range(1500))}
    yield {"grid": [[i, i + 0.5] for i in range(1200)], "tail": "t"}
    yield {"s": "q" * 8191, "u": "\u00e9" * 3000}


# ---------------------------------------------------------------- spellings
def _perms_of(v, tuple_mode, map_cls):
    """All key-insertion orders of every mapping in v (full product), given list/tuple mode."""
    if isinstance(v, dict):
        keys = list(v.keys())
        kid_variants = {k: list(_perms_of(v[k], tuple_mode, map_cls)) for k in keys}
        for order in itertools.permutations(keys):
            for combo in itertools.product(*[kid_variants[k] for k in order]):
                yield map_cls(zip(order, combo))
    elif isinstance(v, list):
        for combo in itertools.product(*[list(_perms_of(x, tuple_mode, map_cls)) for x in v]):
            yield tuple(combo) if tuple_mode else list(combo)
    else:
        yield v


def spellings(v, cap=64):
    n = 0
    for tuple_mode in (False, True):
        for map_cls in (dict, OrderedDict):
            for s in _perms_of(v, tuple_mode, map_cls):
                yield s
                n += 1
                if n >= cap:
                    return


_PROJECT = None


def _project():
    """One scratch project per worker (only un-initialised handles are opened on it)."""
    global _PROJECT
    import signac

    if _PROJECT is None or _PROJECT[0] != os.getpid():
        d = os.path.join(scratch.worker_dir(), "c01-proj")
        os.makedirs(d, exist_ok=True)
        _PROJECT = (os.getpid(), signac.init_project(d))
    return _PROJECT[1]


def evaluate(v):
    import signac
    from signac.job import calc_id

    viol = []
    want = canon.job_id(v)
    inp = {"statepoint": v}

    def bad(kind, msg, observed, spelling=None):
        viol.append({"sig": {"kind": kind}, "input": dict(inp, spelling=repr(spelling)),
                     "expected": {"id": want, "canonical_json": canon.canon_json(v)},
                     "observed": observed, "msg": msg})

    proj = _project()
    nspell = 0
    seen_kinds = set()
    for s in spellings(v):
        nspell += 1
        try:
            got = calc_id(s)
            got2 = proj.open_job(s).id
        except Exception as e:
            if "raise" not in seen_kinds:
                bad("id-raises", f"calc_id/open_job raised {type(e).__name__}: {e}", repr(e), s)
                seen_kinds.add("raise")
            continue
        if (got != want or got2 != want) and "id" not in seen_kinds:
            bad("id-differs-from-canonical-md5", f"id {got}/{got2} != md5(canonical JSON) {want}",
                {"calc_id": got, "open_job.id": got2}, s)
            seen_kinds.add("id")
        if not (len(got) == 32 and got == got.lower() and all(c in "0123456789abcdef" for c in got)):
            bad("id-format", "id is not 32 lowercase hex", got, s)
    # live synced-collection spellings
    try:
        other = proj.open_job(v)
        live = other.statepoint  # _StatePointDict, not on disk (job not initialised)
        ids = [calc_id(live), proj.open_job(live).id]
        if isinstance(v, dict) and v:
            ids.append(proj.open_job({k: live[k] for k in reversed(list(v))}).id)
            ids.append(calc_id({k: live[k] for k in v}))
        nspell += len(ids)
        if any(i != want for i in ids):
            bad("id-differs-synced-spelling", f"synced-collection spelling gives {ids} != {want}", ids, "synced")
    except Exception as e:
        bad("id-raises", f"synced spelling raised {type(e).__name__}: {e}", repr(e), "synced")

    # disk round trip: init, directory name, file content, fresh session re-derives the id
    with scratch.fresh("c01") as d:
        p = signac.init_project(d)
        try:
            job = p.open_job(v).init()
            names = sorted(os.listdir(p.workspace))
            if names != [want]:
                bad("directory-not-named-by-id", f"workspace holds {names}, expected [{want}]", names)
            else:
                with open(os.path.join(p.workspace, want, "signac_statepoint.json"), "rb") as f:
                    raw = f.read()
                parsed = json.loads(raw.decode())
                if not canon.typed_eq(parsed, v):
                    bad("statepoint-file-roundtrip", "state point file does not parse back to the value",
                        {"file": raw.decode(errors="replace")})
                # JSON write/read round trip keeps the id
                rt = calc_id(parsed)
                if rt != want:
                    bad("id-changes-after-json-roundtrip", f"calc_id(json.loads(file)) = {rt}", rt)
                p2 = signac.Project(d)
                j2 = p2.open_job(id=want)
                sp2 = j2.statepoint()
                if j2.id != want or not canon.typed_eq(sp2, v):
                    bad("fresh-session-mismatch", "fresh session opens a different id/state point",
                        {"id": j2.id, "sp": repr(sp2)})
                p2.check()
                lst = [j.id for j in signac.Project(d)]
                if lst != [want]:
                    bad("fresh-session-mismatch", f"iteration gives {lst}", lst)
        except Exception as e:
            bad("roundtrip-raises", f"init/reopen raised {type(e).__name__}: {e}", repr(e))
    tg = hashlib.md5(repr(canon.tagged(v)).encode()).hexdigest()[:16]
    return {"cls": _shape_class(v), "viol": viol, "n": nspell + 4, "nt": (want, tg),
            "sample": {"statepoint": v, "id": want, "spellings": nspell}}


def _shape_class(v):
    def k(x):
        if isinstance(x, dict):
            return "{" + ",".join(k(y) for y in x.values()) + "}"
        if isinstance(x, list):
            return "[" + ",".join(k(y) for y in x) + "]"
        return type(x).__name__[0]
    return k(v)


# ---------------------------------------------------------------- cross-session table
def table_digest(tier):
    """sha1 over (canonical JSON, calc_id of a permuted spelling) of the flat quick universe."""
    from signac.job import calc_id

    h = hashlib.sha1()
    n = 0
    for v in flat_universe(True):
        s = list(spellings(v, cap=4))[-1]
        # also route through set-ordered key insertion so that hash randomisation matters
        if isinstance(v, dict):
            s2 = {k: v[k] for k in set(v)}
        else:
            s2 = s
        h.update(canon.canon_json(v).encode())
        h.update(calc_id(s).encode())
        h.update(calc_id(s2).encode())
        n += 1
    return h.hexdigest(), n


def run(ctx):
    report = Report(LEVEL)
    tot = engine_i.run_items(ctx, universe(ctx.tier), evaluate, chunk=48)
    # injectivity: typed-different values <-> different ids
    ids = {}
    tags = {}
    for i, t in tot.nt:
        ids.setdefault(i, set()).add(t)
        tags.setdefault(t, set()).add(i)
    for i, ts in ids.items():
        if len(ts) > 1:
            report.add_violation({"sig": {"kind": "id-collision-between-different-json-values"},
                                  "input": {"id": i, "value_tags": sorted(ts)}, "expected": "distinct ids",
                                  "observed": i, "msg": f"{len(ts)} JSON-different state points share id {i}"})
    for t, is_ in tags.items():
        if len(is_) > 1:
            report.add_violation({"sig": {"kind": "same-value-different-ids"}, "input": {"tag": t},
                                  "expected": "one id", "observed": sorted(is_), "msg": "one value, several ids"})
    # golden ids against the independent canonicaliser and the code
    from signac.job import calc_id
    for v, gid in GOLDEN:
        if canon.job_id(v) != gid or calc_id(v) != gid:
            report.add_violation({"sig": {"kind": "golden-id"}, "input": {"statepoint": v},
                                  "expected": gid, "observed": {"canon": canon.job_id(v), "calc_id": calc_id(v)},
                                  "msg": "published id not reproduced"})
    # other sessions, other hash seeds
    mine, n = table_digest(ctx.tier)
    sessions = {"0(this)": mine}
    for hs in ("1", "4242"):
        env = dict(os.environ, PYTHONHASHSEED=hs)
        out = subprocess.run([sys.executable, "-m", "vlib.checks.c01", "--table", ctx.tier],
                             env=env, capture_output=True, text=True, cwd=ctx.verif)
        got = out.stdout.strip().split(" ")[0] if out.returncode == 0 else f"rc={out.returncode}:{out.stderr[-300:]}"
        sessions[hs] = got
        if got != mine:
            if out.returncode != 0:
                report.harness_errors.append(f"table subprocess failed: {got}")
            else:
                report.add_violation({"sig": {"kind": "id-depends-on-session"}, "input": {"PYTHONHASHSEED": hs},
                                      "expected": mine, "observed": got,
                                      "msg": "id table differs between interpreter sessions"})
    engine_i.fill_report(report, tot, rule=(
        "flat atom product (18 atoms; values atom|[x]|[x,y]|{c:x}; keys a,b) UNION all container shapes "
        "(top mapping <=4 keys, nested lists/mappings <=2) up to the node/depth bound with one focus leaf over all "
        "atoms; per value every key order x list/tuple x dict/OrderedDict/synced spelling; "
        "distinct_nontrivial = distinct (id, typed value) pairs"),
        extra={"bounds": {"shaped_max_nodes": 5 if ctx.quick else 7, "shaped_depth": 2 if ctx.quick else 3,
                          "flat_two_key_product": "diagonal" if ctx.quick else "full"},
               "alphabet_sizes": {"atoms": len(ATOMS), "flat_values": len(list(flat_values()))},
               "session_table": {"entries": n, "digests": sessions}, "golden_ids": len(GOLDEN)},
        floor_distinct=500)
    report.assumptions += ["md5/UTF-8 as in hashlib", "canonical JSON oracle in vlib/canon.py written independently of json.dumps",
                           "floats are rendered by repr() (shortest round-trip), as JSON text in Python is"]
    return report


def replay(payload, ctx):
    v = payload["input"].get("statepoint")
    if v is None:
        return []
    return evaluate(v)["viol"]


if __name__ == "__main__":
    if len(sys.argv) >= 3 and sys.argv[1] == "--table":
        d, n = table_digest(sys.argv[2])
        print(d, n)
