"""C02 — initialised jobs persist and reopen exactly; opening is lazy.

(a) engine I over the C01 quick universe: open_job writes nothing and does not alias the caller's
    mapping; init creates exactly workspace/<id>/signac_statepoint.json; re-init through the same
    handle / a new handle / a new Project never rewrites the file (inode, bytes, mtime); a fresh
    Project finds the job by iteration, membership, len, full id, statepoint(), cached_statepoint.
(b) engine I: job sets whose ids share prefixes of EVERY length 1..31 (real state points for short
    prefixes, id-named directories for long ones): every id x every prefix length 1..32 and
    non-matching prefixes resolve to unique id / LookupError / KeyError.
(c) engine H: histories of open / mutate caller dict / init / re-init / fresh session / lookups.
"""
import copy
import itertools
import json
import os

from .. import canon, engine_h, engine_i, scratch
from ..runner import Report
from . import c01

PROPERTY = "C02"
LEVEL = "model_checking"
SPF = "signac_statepoint.json"
_SALT = 0


def _mutate_all(v):
    """Mutate every mutable node of a nested value in place."""
    if isinstance(v, dict):
        for k in list(v):
            _mutate_all(v[k])
        v["__mutated__"] = 1
        for k in list(v)[:1]:
            if k != "__mutated__":
                v[k] = "changed"
    elif isinstance(v, list):
        for x in v:
            _mutate_all(x)
        v.append("changed")


def eval_sp(item):
    try:
        return _eval_sp(item)
    except Exception as e:  # noqa  (every call in there is a plain public API call on a valid state point)
        import traceback
        tb = traceback.extract_tb(e.__traceback__)
        where = next((f"{os.path.basename(f.filename)}:{f.lineno}" for f in reversed(tb) if "/signac/" in f.filename), "?")
        return {"cls": "raises", "n": 1, "viol": [{
            "sig": {"kind": "public-call-raises", "exc": type(e).__name__}, "scenario": "per-statepoint",
            "input": {"part": "sp", "statepoint": item[1]}, "expected": "no exception", "observed": repr(e),
            "msg": f"open/init/reopen sequence on {item[1]!r} raised {type(e).__name__}: {e} (at {where})"}]}


def _eval_sp(item):
    import signac

    _, sp = item
    viol = []
    want_id = canon.job_id(sp)

    def bad(kind, msg, expected=None, observed=None, **extra):
        viol.append({"sig": dict(kind=kind, **extra), "scenario": "per-statepoint", "input": {"part": "sp", "statepoint": sp},
                     "expected": expected, "observed": observed, "msg": msg})
    with scratch.fresh("c02") as d:
        p = signac.init_project(d)
        before = canon.snapshot(d)
        caller = copy.deepcopy(sp)
        job = p.open_job(caller)
        jid = job.id
        if canon.snapshot(d) != before:
            bad("open-job-writes", f"open_job wrote to disk: {canon.snap_diff(before, canon.snapshot(d))}")
        _mutate_all(caller)
        if job.id != want_id or not canon.typed_eq(canon.plain(job.statepoint()), sp) or \
                not canon.typed_eq(canon.plain(dict(job.cached_statepoint)), sp):
            bad("handle-aliases-caller-mapping", f"after mutating the caller's mapping the handle reports id {job.id}, "
                f"state point {job.statepoint()!r}", sp, repr(job.statepoint()))
        if canon.snapshot(d) != before:
            bad("open-job-writes", "accessing id/statepoint of an unopened job wrote to disk")
        # other spellings of the caller's mapping must not be aliased either: tuples holding mutable items, and
        # values that are live synced collections of another (uninitialised) job
        if any(isinstance(v, (list, dict)) for v in sp.values()):
            caller2 = {k: (tuple(copy.deepcopy(v)) if isinstance(v, list) else copy.deepcopy(v)) for k, v in sp.items()}
            job2 = p.open_job(caller2)
            for v in caller2.values():
                for x in (v if isinstance(v, tuple) else [v]):
                    _mutate_all(x)
            if job2.id != want_id or not canon.typed_eq(canon.plain(job2.statepoint()), sp):
                bad("handle-aliases-caller-mapping", f"tuple spelling: after mutating items inside the caller's tuples the handle "
                    f"reports id {job2.id}, state point {job2.statepoint()!r}", sp, repr(job2.statepoint()), spelling="tuple")
            other = p.open_job(copy.deepcopy(sp))
            live = other.statepoint
            caller3 = {k: live[k] for k in sp}
            job3 = p.open_job(caller3)
            for k, v in sp.items():
                try:
                    if isinstance(v, list):
                        live[k].append("changed")
                    elif isinstance(v, dict):
                        live[k]["__mutated__"] = 1
                except Exception:
                    pass
            # ... and the other job's state point object itself as the argument
            other2 = p.open_job(copy.deepcopy(sp))
            job4 = p.open_job(other2.statepoint)
            for k, v in sp.items():
                try:
                    if isinstance(v, list):
                        other2.statepoint[k].append("changed")
                    elif isinstance(v, dict):
                        other2.statepoint[k]["__mutated__"] = 1
                except Exception:
                    pass
            if job4.id != want_id or not canon.typed_eq(canon.plain(job4.statepoint()), sp):
                bad("handle-aliases-caller-mapping", f"state-point-object spelling: after the other job's state point changed the "
                    f"handle reports id {job4.id}, state point {job4.statepoint()!r}", sp, repr(job4.statepoint()), spelling="statepoint-object")
            if job3.id != want_id or not canon.typed_eq(canon.plain(job3.statepoint()), sp):
                bad("handle-aliases-caller-mapping", f"synced-collection spelling: after the other job's state point changed the "
                    f"handle reports id {job3.id}, state point {job3.statepoint()!r}", sp, repr(job3.statepoint()), spelling="synced")
            if canon.snapshot(d) != before:
                bad("open-job-writes", "opening jobs from tuple / synced spellings wrote to disk")
        job.init()
        after = canon.snapshot(d)
        created = sorted(k for k in after if k not in before)
        want_created = sorted(["workspace/" + want_id, f"workspace/{want_id}/{SPF}"])
        if created != want_created or any(before[k] != after[k] for k in before):
            bad("init-creates-unexpected-paths", f"init created {created}, expected {want_created}", want_created, created)
        fn = os.path.join(d, "workspace", want_id, SPF)
        try:
            with open(fn, "rb") as f:
                raw = f.read()
            if not canon.typed_eq(json.loads(raw.decode()), sp):
                bad("statepoint-file-wrong", f"file holds {raw!r}", sp, raw.decode(errors="replace"))
        except OSError as e:
            bad("statepoint-file-wrong", f"cannot read the state point file: {e}")
            return {"cls": "broken", "viol": viol, "n": 1}
        os.utime(fn, ns=(10**18, 10**18))  # a recognisable mtime: any rewrite changes it
        st0 = os.stat(fn)
        for how in ("same-handle", "new-handle", "new-project", "by-id-handle"):
            if how == "same-handle":
                job.init()
            elif how == "new-handle":
                p.open_job(copy.deepcopy(sp)).init()
            elif how == "new-project":
                signac.Project(d).open_job(copy.deepcopy(sp)).init()
            else:
                signac.Project(d).open_job(id=want_id).init()
            st1 = os.stat(fn)
            with open(fn, "rb") as f:
                raw1 = f.read()
            if (st1.st_ino, st1.st_mtime_ns) != (st0.st_ino, st0.st_mtime_ns) or raw1 != raw:
                bad("reinit-rewrites-valid-file", f"init() via {how} rewrote a valid state point file", None, how, how=how)
                break
        p2 = signac.Project(d)
        found = [j for j in p2]
        if [j.id for j in found] != [want_id] or len(p2) != 1:
            bad("fresh-session-listing", f"fresh Project lists {[j.id for j in found]}, len {len(p2)}")
        else:
            j = found[0]
            if not canon.typed_eq(canon.plain(j.statepoint()), sp) or not canon.typed_eq(canon.plain(dict(found[0].cached_statepoint)), sp):
                bad("fresh-session-statepoint", f"fresh session reads {j.statepoint()!r}", sp, repr(j.statepoint()))
        # every read route on its own fresh session (the first access decides which reader is used)
        for route in ("cached_statepoint", "check", "find_jobs"):
            pf = signac.Project(d)
            try:
                if route == "cached_statepoint":
                    got_sp = canon.plain(dict(pf.open_job(id=want_id).cached_statepoint))
                elif route == "check":
                    pf.check()
                    got_sp = sp
                else:
                    hits = [j for j in pf.find_jobs({"__no_such_key__": {"$exists": False}})]
                    got_sp = canon.plain(hits[0].statepoint()) if len(hits) == 1 else f"{len(hits)} jobs"
            except Exception as e:  # noqa
                got_sp = f"{type(e).__name__}: {str(e)[:120]}"
            if not canon.typed_eq(got_sp, sp):
                bad("fresh-session-statepoint", f"fresh session, first access through {route}: {str(got_sp)[:200]}", None, str(got_sp)[:300],
                    route=route)
        p3 = signac.Project(d)
        if p3.open_job(copy.deepcopy(sp)) not in p3 or p3.open_job(id=want_id).id != want_id:
            bad("fresh-session-membership", "membership / open by full id fails in a fresh session")
        try:
            signac.Project(d).open_job(id="f" * 32 if want_id != "f" * 32 else "e" * 32)
            bad("unknown-id-no-keyerror", "open_job of an unknown full id did not raise KeyError")
        except KeyError:
            pass
        except Exception as e:  # noqa
            bad("unknown-id-no-keyerror", f"unknown id raised {type(e).__name__}")
    # a Project object obtained through a RELATIVE path keeps meaning the same directory when the working directory
    # changes afterwards (signac itself changes it inside `with job:`)
    for entry in ("Project", "get_project", "init_project"):
        with scratch.fresh("c02r") as base:
            d = os.path.join(base, "proj")
            os.makedirs(os.path.join(base, "elsewhere"))
            signac.init_project(d)
            cwd0 = os.getcwd()
            try:
                os.chdir(base)
                prel = {"Project": signac.Project, "get_project": signac.get_project, "init_project": signac.init_project}[entry]("proj")
                os.chdir(os.path.join(base, "elsewhere"))
                prel.open_job(copy.deepcopy(sp)).init()
                with prel.open_job(copy.deepcopy(sp)):
                    prel.open_job(copy.deepcopy(sp)).init()
            finally:
                os.chdir(cwd0)
            snap = sorted(k for k in canon.snapshot(base) if not k.startswith("proj/.signac"))
            want_paths = sorted(["elsewhere", "proj", "proj/workspace", f"proj/workspace/{want_id}", f"proj/workspace/{want_id}/{SPF}"])
            if snap != want_paths or [j.id for j in signac.Project(d)] != [want_id]:
                bad("relative-project-path-follows-cwd", f"a project opened as {entry}('proj') and used after chdir left {snap}, "
                    f"expected {want_paths}", want_paths, snap, entry=entry)
    return {"cls": c01._shape_class(sp), "viol": viol, "n": 15, "nt": jid, "sample": {"statepoint": sp, "id": jid}}


# ------------------------------------------------------------------ (b) prefix resolution
def real_prefix_sets():
    """Deterministic search over {"i": k}: groups of real state points sharing id prefixes of length 1, 2, 3."""
    buckets = {}
    out = {}
    for k in range(20000):
        sp = {"i": k}
        jid = canon.job_id(sp)
        for n in (1, 2, 3):
            b = buckets.setdefault((n, jid[:n]), [])
            b.append(sp)
            if len(b) == 3 and n not in out and not any(canon.job_id(x)[:n + 1] == jid[:n + 1] for x in b[:-1]):
                out[n] = list(b)
        if len(out) == 3:
            break
    return out


def synthetic_ids(n):
    """Three ids sharing exactly a prefix of length n (n >= 1), plus two unrelated ones."""
    base = "0123456789abcdef0123456789abcdef"
    ids = []
    for c in "abc":
        ids.append(base[:n] + c * (32 - n) if n < 32 else base)
    return ids + ["f" * 32, "e" * 16 + "d" * 16]


def eval_prefix(item):
    import signac

    _, kind, payload = item
    viol = []
    n = 0

    def bad(k, msg, expected=None, observed=None, **extra):
        if len(viol) < 5:
            viol.append({"sig": dict(kind=k, **extra), "scenario": "prefix/" + kind,
                         "input": {"part": "prefix", "kind": kind, "payload": payload},
                         "expected": expected, "observed": observed, "msg": msg})
    with scratch.fresh("c02p") as d:
        p = signac.init_project(d)
        if kind == "real":
            ids = [p.open_job(sp).init().id for sp in payload]
            sps = {canon.job_id(sp): sp for sp in payload}
        else:
            ids = list(payload)
            for i in ids:
                os.makedirs(os.path.join(d, "workspace", i))
            sps = {}
        probes = set()
        for i in ids:
            for ln in range(1, 33):
                probes.add(i[:ln])
        for q in ("9", "99", "0" * 31, "dead", "0123456789abcdef0123456789abcdee"):
            probes.add(q)
        sessions = [None]
        if kind == "real":
            sessions += list(ids)  # a session that has already accessed exactly one of the jobs (in-memory cache warm)
        for warm, q in itertools.product(sessions, sorted(probes)):
            matches = [i for i in ids if i.startswith(q)]
            if len(q) == 32:
                want = ("id", q) if q in ids else ("KeyError", None)
            else:
                want = ("id", matches[0]) if len(matches) == 1 else (("LookupError", None) if matches else ("KeyError", None))
            n += 1
            try:
                proj = signac.Project(d)
                if warm is not None:
                    proj.open_job(id=warm).statepoint()
                job = proj.open_job(id=q)
                got = ("id", job.id)
                if kind == "real" and got == want:
                    if not canon.typed_eq(canon.plain(job.statepoint()), sps[job.id]):
                        bad("prefix-open-wrong-statepoint", f"prefix {q} -> {job.id} with state point {job.statepoint()!r}")
            except KeyError:
                got = ("KeyError", None)
            except LookupError:
                got = ("LookupError", None)
            except Exception as e:  # noqa
                got = (type(e).__name__, str(e))
            if got != want:
                bad("prefix-resolution-wrong", f"open_job(id={q!r}) among {ids} (session had accessed {warm}): {got}, "
                    f"expected {want}", list(want), list(got), expected_outcome=want[0], observed_outcome=got[0],
                    warm_session=warm is not None)
    return {"cls": kind, "viol": viol, "n": n, "nt": f"{kind}:{len(ids)}:{payload if kind != 'real' else len(payload)}"[:80],
            "sample": {"kind": kind, "ids": ids[:3], "probes": n}}


# ------------------------------------------------------------------ (c) histories
SPS = [{"h": 0}, {"h": 1}, {"h": {"n": [1, 2]}}]


def execute(hist):
    import signac

    viol = []
    n = 0

    def bad(kind, msg, **extra):
        viol.append({"sig": dict(kind=kind, **extra), "scenario": "history", "input": {"part": "history", "history": [list(o) for o in hist], "salt": _SALT},
                     "expected": "model", "observed": msg, "msg": msg})
    with scratch.fresh("c02h") as d:
        p = signac.init_project(d)
        handles, callers, inited = {}, {}, set()
        sps = [dict(s, salt=_SALT) if _SALT else dict(s) for s in SPS]
        ids = [canon.job_id(s) for s in sps]
        for k, op in enumerate(hist):
            last = k == len(hist) - 1
            n += 1
            name, i = op[0], (op[1] if len(op) > 1 else None)
            try:
                if name == "open":
                    callers[i] = copy.deepcopy(sps[i])
                    handles[i] = p.open_job(callers[i])
                elif name == "mutate":
                    _mutate_all(callers[i])
                elif name == "init":
                    handles[i].init()
                    inited.add(i)
                elif name == "fresh":
                    p = signac.Project(d)
                elif name == "lookup_sp":
                    j = p.open_job(copy.deepcopy(sps[i]))
                    if (j in p) != (i in inited) and last:
                        bad("membership-wrong", f"job {i} in project = {j in p}, model {i in inited}")
                elif name in ("lookup_id", "lookup_prefix"):
                    q = ids[i] if name == "lookup_id" else ids[i][:8]
                    known = i in inited or i in handles and False
                    try:
                        j = p.open_job(id=q)
                        ok = j.id == ids[i] and (i not in inited or canon.typed_eq(canon.plain(j.statepoint()), sps[i]))
                        if i not in inited and last and name == "lookup_prefix":
                            bad("prefix-finds-uninitialised", f"prefix lookup of a never-initialised job returned {j.id}")
                        elif not ok and last:
                            bad("lookup-wrong", f"{name} of job {i} gave {j.id}")
                    except KeyError:
                        if i in inited and last:
                            bad("lookup-keyerror-for-initialised", f"{name} of initialised job {i} raised KeyError")
                else:
                    raise ValueError(op)
            except Exception as e:  # noqa
                if last:
                    bad("operation-raises", f"{op}: {type(e).__name__}: {e}", op=name)
                else:
                    raise
        # invariants through a fresh project
        fp = signac.Project(d)
        listed = sorted(j.id for j in fp)
        want = sorted(ids[i] for i in inited)
        if listed != want or len(fp) != len(want):
            bad("workspace-differs", f"fresh project lists {listed}, model {want} (uninitialised handles must not create jobs)")
        for i, h in handles.items():
            if h.id != ids[i] or not canon.typed_eq(canon.plain(h.statepoint()), sps[i]):
                bad("handle-aliases-caller-mapping", f"handle {i} reports {h.id} / {h.statepoint()!r}")
        key = json.dumps({"ws": listed, "handles": sorted(handles), "mutated": sorted(i for i, c in callers.items() if "__mutated__" in c),
                          "cache": sorted(getattr(p, "_sp_cache", ())), "req": sorted(i for i, h in handles.items() if getattr(h, "_statepoint_requires_init", None))})
    enabled = []
    for i in range(len(SPS)):
        if i not in handles:
            enabled.append(["open", i])
        else:
            enabled += [["mutate", i], ["init", i]]
        enabled += [["lookup_sp", i], ["lookup_id", i], ["lookup_prefix", i]]
    enabled.append(["fresh"])
    return {"key": key, "enabled": enabled, "viol": viol, "n": n, "cls": hist[-1][0] if hist else "init"}


def _exec(hist):
    return execute(tuple(tuple(o) for o in hist))


def evaluate(item):
    return eval_sp(item) if item[0] == "sp" else eval_prefix(item)


def universe(tier):
    # containers three and four levels below the top (the C01 quick universe stops at depth 2)
    for v in ({"a": {"b": {"c": 1}}}, {"a": [[1], [2]]}, {"a": [{"b": [1, 2]}]}, {"a": {"b": {"c": {"d": [1]}}}},
              {"a": {"b": [{"c": {"d": 1}}]}, "z": 0}):
        yield ("sp", v)
    for v in c01.universe("quick"):
        yield ("sp", v)
    for n, sps in sorted(real_prefix_sets().items()):
        yield ("prefix", "real", sps)
    for n in range(1, 32):
        yield ("prefix", "synthetic", synthetic_ids(n))


def run(ctx):
    global _SALT
    _SALT = ctx.seed
    report = Report(LEVEL)
    tot = engine_i.run_items(ctx, universe(ctx.tier), evaluate, chunk=24)
    st = engine_h.explore(ctx, _exec, max_depth=5 if ctx.quick else 6, chunk=16)
    engine_h.fill_report(report, st)
    engine_i.fill_report(report, tot, rule=(
        "(a) every state point of the C01 quick universe: snapshot around open_job, caller-mapping mutation, init, four "
        "re-init routes (inode/mtime/bytes), fresh-session lookups; (b) real job sets sharing id prefixes of length 1,2,3 "
        "and id-named directories sharing prefixes of every length 1..31: every prefix length 1..32 of every id plus "
        "non-matching probes; (c) BFS over open/mutate/init/fresh/lookup histories of 3 jobs"),
        extra={"bounds": {"history_depth": 5 if ctx.quick else 6, "prefix_lengths": "1..32"}, "exhaustive": True},
        floor_distinct=100)
    report.assumptions += ["prefix resolution is defined on the directory listing; long shared prefixes use id-named "
                           "directories because MD5 preimages are not searchable",
                           "a full id never seen by the session raises KeyError"]
    return report


def replay(payload, ctx):
    global _SALT
    inp = payload["input"]
    if inp["part"] == "sp":
        return eval_sp(("sp", inp["statepoint"]))["viol"]
    if inp["part"] == "prefix":
        return eval_prefix(("prefix", inp["kind"], inp["payload"]))["viol"]
    _SALT = inp.get("salt", 0)
    return _exec(inp["history"])["viol"]
