"""C13 — see vlib/checks/syncu.py (shared sync universe, executor and oracles)."""
from . import syncu

PROPERTY = "C13"
LEVEL = "exploration"


def items(tier):
    for c in syncu.base_cases(tier):
        yield ("case", c)


def run(ctx):
    r = syncu.run_check(ctx, "C13", items, rule=(
        "22 job-pair shapes (presence x files identical / one-sided / differing by size and mtime / nested / excluded name x "
        "documents equal / disjoint / overlapping / flat, nested, deep and mixed-type conflicts) as 1-shape projects under the "
        "full product strategy(5) x doc_sync(6) x recursive x exclude at project and job level; project-document and "
        "check_schema slices; all ordered 2-shape projects x 6 selections x 3 option sets x 2 listing orders (thorough: "
        "3-shape projects). Every call runs between byte snapshots; postconditions are judged only for calls that return; "
        "the same call is repeated to show idempotence. distinct_nontrivial = distinct (entry, outcome, shapes, options)"))
    r.assumptions += ["mtimes are set explicitly; without deep, files with equal (size, mtime) count as equal (filecmp shallow)",
                      "under doc_sync=COPY the document is judged as a file; under DocSync.update 'keys' are top-level keys",
                      "SchemaSyncConflict is an accepted outcome when check_schema is on"]
    return r


def replay(payload, ctx):
    return syncu.replay_case(payload, "C13")
