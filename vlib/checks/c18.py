"""C18 — detect_schema and diff_jobs are exact summaries of the state points.

Engine I: every corpus of <=4 (quick) / <=5 (thorough) jobs of a 16-state-point universe built to
collide (1 / 1.0 / True / "1" under one key, -2 / -2.0, a key that is scalar in one job and a
mapping in another, keys present in only some jobs) x every sub-selection (ids and Job objects)
x exclude_const; diff_jobs on every sub-selection (every order for <=3 jobs).
"""
import itertools
import os

from .. import canon, engine_i, scratch
from ..runner import Report

PROPERTY = "C18"
LEVEL = "exploration"

POINTS = [
    {"a": 1}, {"a": 1.0}, {"a": True}, {"a": "1"}, {"a": None}, {"a": [1, 2]},
    {"a": 1, "b": 0}, {"a": 1.0, "b": 0}, {"a": 1, "c": 5}, {"a": 1, "c": {"d": 5}},
    {"a": 2, "c": {"d": 5}}, {"a": 2, "c": {"d": 6, "e": 7}}, {"b": 0}, {"a": -2}, {"a": -2.0},
    {"a": 0, "b": False},
    # the same list-of-mappings value written with two key orders
    {"a": 1, "l": [{"s": "A", "c": 1}]}, {"a": 2, "l": [{"c": 1, "s": "A"}]},
    # several differing leaves under one parent two levels down (and that parent a scalar in other jobs)
    {"a": 2, "c": {"d": {"x": 1, "y": 2, "z": 0}}}, {"a": 2, "c": {"d": {"x": 1, "y": 3, "z": 1}, "e": 7}},
]


def flat(sp, prefix=None):
    """dotted leaves of a state point; lists -> tuples"""
    out = {}
    for k, v in sp.items():
        kk = k if prefix is None else prefix + "." + k
        if isinstance(v, dict) and v:
            out.update(flat(v, kk))
        else:
            out[kk] = _tup(v)
    return out


def _tup(v):
    if isinstance(v, list):
        return tuple(_tup(x) for x in v)
    return v


def ref_schema(sps, exclude_const):
    keys = {}
    for sp in sps:
        for k, v in flat(sp).items():
            keys.setdefault(k, []).append(v)
    out = {}
    for k, vals in keys.items():
        tags = {canon.tagged(v) for v in vals}
        if exclude_const and len(vals) == len(sps) and len(tags) == 1:
            continue
        out[k] = {}
        for v in vals:
            out[k].setdefault(type(v).__name__, set()).add(canon.tagged(v))
    return out


def norm_schema(schema):
    out = {}
    for k, tv in schema.items():
        out[k] = {}
        for t, vs in tv.items():
            for v in vs:
                # group by the type the implementation reports, keep values type-exact
                out[k].setdefault(t.__name__, set()).add(canon.tagged(v))
    return out


def _show(s):
    return {k: {t: sorted(map(repr, vs)) for t, vs in tv.items()} for k, tv in s.items()}


def ref_diff(sps):
    """{index: nested dict of the job's own (key, value) pairs not shared (Python ==) by all}"""
    flats = [flat(sp) for sp in sps]
    out = []
    for i, f in enumerate(flats):
        d = {}
        for k, v in f.items():
            shared = all(k in g and g[k] == v for g in flats)
            if not shared:
                d[k] = v
        out.append(d)
    return out


def nest(dotted):
    out = {}
    for k, v in dotted.items():
        parts = k.split(".")
        t = out
        for p in parts[:-1]:
            t = t.setdefault(p, {})
        t[parts[-1]] = v
    return out


def evaluate(item):
    import signac

    idxs = item
    sps = [POINTS[i] for i in idxs]
    viol = []
    n = 0
    outcomes = set()
    with scratch.fresh("c18") as d:
        p = signac.init_project(d)
        jobs = [p.open_job(sp).init() for sp in sps]
        ids = [j.id for j in jobs]
        p0 = p  # the session that created the jobs (warm caches)
        p = signac.Project(d)
        # sub-selections
        sels = [None]
        for r in range(1, len(sps) + 1):
            for sub in itertools.combinations(range(len(sps)), r):
                sels.append(sub)
        for sel in sels:
            forms = [("all", None)] if sel is None else [("ids", [ids[i] for i in sel]),
                                                          ("jobs", [p.open_job(id=ids[i]) for i in sel])]
            chosen = sps if sel is None else [sps[i] for i in sel]
            for ex in (False, True):
                want = ref_schema(chosen, ex)
                for form, subset in forms:
                    n += 1
                    try:
                        got = norm_schema(p.detect_schema(exclude_const=ex, subset=subset))
                        exc = None
                    except Exception as e:  # noqa
                        got, exc = None, f"{type(e).__name__}: {e}"
                    outcomes.add(repr(sorted(_show(got).items())) if got is not None else exc)
                    if got != want:
                        if len(viol) < 3:
                            viol.append({"sig": {"kind": "schema-differs" if exc is None else "schema-raises",
                                                 "exclude_const": ex},
                                         "scenario": "detect_schema",
                                         "input": {"statepoints": sps, "selection": list(sel) if sel else None,
                                                   "form": form, "exclude_const": ex, "op": "detect_schema"},
                                         "expected": _show(want), "observed": _show(got) if got is not None else exc,
                                         "msg": f"detect_schema(exclude_const={ex}, subset={form}:{sel}) on {sps}: "
                                                f"{_show(got) if got is not None else exc} != {_show(want)}"})
            # diff_jobs on the selection (every order when small)
            if sel is None:
                continue
            orders = list(itertools.permutations(sel)) if len(sel) <= 3 else [sel, tuple(reversed(sel))]
            for order in orders:
                n += 1
                osps = [sps[i] for i in order]
                want_d = {ids[i]: nest(dd) for i, dd in zip(order, ref_diff(osps))}
                try:
                    got_d = signac.diff_jobs(*[p.open_job(id=ids[i]) for i in order])
                    exc = None
                except Exception as e:  # noqa
                    got_d, exc = None, f"{type(e).__name__}: {e}"
                ok = exc is None and set(got_d) == set(want_d) and all(
                    canon.typed_eq(canon.plain(_untup(got_d[k])), canon.plain(_untup(want_d[k]))) for k in want_d)
                outcomes.add(repr(got_d) if got_d is not None else exc)
                if not ok and len(viol) < 4:
                    viol.append({"sig": {"kind": "diff-differs" if exc is None else "diff-raises"},
                                 "scenario": "diff_jobs",
                                 "input": {"statepoints": osps, "op": "diff_jobs"},
                                 "expected": repr(want_d), "observed": repr(got_d) if got_d is not None else exc,
                                 "msg": f"diff_jobs on {osps}: {got_d if got_d is not None else exc} != {want_d}"})
                if exc is None:
                    # reconstruction: common part + diff == the job's own state point (Python ==)
                    flats = [flat(s) for s in osps]
                    common = {k: v for k, v in flats[0].items() if all(k in g and g[k] == v for g in flats)}
                    for i, f in zip(order, flats):
                        rebuilt = dict(common)
                        rebuilt.update(flat(_untup_map(got_d.get(ids[i], {}))))
                        if rebuilt != f and len(viol) < 4:
                            viol.append({"sig": {"kind": "diff-does-not-reconstruct"}, "scenario": "diff_jobs",
                                         "input": {"statepoints": osps, "op": "diff_jobs"},
                                         "expected": repr(f), "observed": repr(rebuilt),
                                         "msg": "common part + diff does not rebuild the state point"})
        # a short history in the session that created the jobs: remove one, re-key another, then ask for the schema of a
        # subset that still names the old ids - only jobs that exist now may contribute
        if len(sps) >= 2 and not viol:
            try:
                from signac.errors import DestinationExistsError

                def diff_ok(handles, cur, what):
                    nonlocal n
                    n += 1
                    want_d = {h.id: nest(dd) for h, dd in zip(handles, ref_diff(cur))}
                    got_d = signac.diff_jobs(*handles)
                    if not (set(got_d) == set(want_d) and all(
                            canon.typed_eq(canon.plain(_untup(got_d[k])), canon.plain(_untup(want_d[k]))) for k in want_d)):
                        viol.append({"sig": {"kind": "diff-uses-stale-session-data", "after": what}, "scenario": "diff_jobs/history",
                                     "input": {"statepoints": sps, "op": what}, "expected": repr(want_d), "observed": repr(got_d),
                                     "msg": f"{what}: diff_jobs through the same handles gives {got_d}, expected {want_d}"})
                # a refused state point assignment (the destination exists) changes nothing the summaries may show
                refused = False
                if sps[0] != sps[1]:  # (an assignment that only changes JSON types is open finding KF-C03-4, not used here)
                    try:
                        jobs[0].statepoint = dict(sps[1])
                    except DestinationExistsError:
                        refused = True
                if refused:
                    for ex in (False, True):
                        n += 1
                        got = norm_schema(p0.detect_schema(exclude_const=ex))
                        if got != ref_schema(sps, ex):
                            viol.append({"sig": {"kind": "schema-uses-stale-session-data", "exclude_const": ex, "after": "refused-rekey"},
                                         "scenario": "detect_schema/history", "input": {"statepoints": sps, "op": "refused re-key"},
                                         "expected": _show(ref_schema(sps, ex)), "observed": _show(got),
                                         "msg": f"after a refused state point assignment detect_schema(exclude_const={ex}) of the same "
                                                f"session gives {_show(got)}, expected {_show(ref_schema(sps, ex))}"})
                    fresh_handles = [p0.open_job(id=i) for i in ids]
                    diff_ok(fresh_handles, list(sps), "diff after a refused re-key")
                    jobs[0] = p0.open_job(id=ids[0])  # the refused handle keeps its edited in-memory state point: not used again
                # the same handles before and after a state point change made through one of them
                handles = [p0.open_job(id=i) for i in ids]
                diff_ok(handles, list(sps), "first diff")
                changed = dict(sps[1], rekeyed=2)
                handles[1].statepoint = changed
                cur = list(sps)
                cur[1] = changed
                diff_ok(handles, cur, "diff after re-key through a diffed handle")
                handles[1].statepoint = dict(sps[1])
                diff_ok(handles, list(sps), "diff after re-keying back")
                jobs[-1].remove()
                remaining = list(sps[:-1])
                new_sp = dict(sps[0], rekeyed=1)
                jobs[0].statepoint = new_sp
                remaining[0] = new_sp
                names = ids + [jobs[0].id]
                for ex in (False, True):
                    n += 1
                    want = ref_schema(remaining, ex)
                    got = norm_schema(p0.detect_schema(exclude_const=ex, subset=names))
                    if got != want:
                        viol.append({"sig": {"kind": "schema-uses-stale-session-data", "exclude_const": ex}, "scenario": "detect_schema/history",
                                     "input": {"statepoints": sps, "op": "remove-last+rekey-first+detect_schema(subset=all ids ever)"},
                                     "expected": _show(want), "observed": _show(got),
                                     "msg": f"after remove / re-key in the same session detect_schema(subset=old and new ids, "
                                            f"exclude_const={ex}) gives {_show(got)}, expected {_show(want)}"})
            except Exception as e:  # noqa
                viol.append({"sig": {"kind": "schema-raises", "exclude_const": None}, "scenario": "detect_schema/history",
                             "input": {"statepoints": sps, "op": "history"}, "expected": "schema", "observed": repr(e),
                             "msg": f"history raised {type(e).__name__}: {e}"})
    return {"cls": f"jobs{len(sps)}:{len(outcomes)}", "viol": viol, "n": n,
            "nt": [hash(o) for o in outcomes], "nt_many": True,
            "sample": {"statepoints": sps, "calls": n}}


def _untup(v):
    if isinstance(v, tuple):
        return [_untup(x) for x in v]
    if isinstance(v, dict):
        return {k: _untup(x) for k, x in v.items()}
    return v


def _untup_map(m):
    return {k: (_untup_map(v) if isinstance(v, dict) else v) for k, v in m.items()}


def universe(tier):
    maxn = 4 if tier == "quick" else 5
    for r in range(1, maxn + 1):
        for c in itertools.combinations(range(len(POINTS)), r):
            yield c


def run(ctx):
    report = Report(LEVEL)
    tot = engine_i.run_items(ctx, universe(ctx.tier), evaluate, chunk=4)
    engine_i.fill_report(report, tot, rule=(
        "every corpus of 1..N jobs from a 22-state-point colliding universe x every sub-selection (as ids and as Job "
        "objects) x exclude_const for detect_schema; diff_jobs on every sub-selection in every order; "
        "evaluations = API calls; distinct_nontrivial = distinct returned schemas/diffs"),
        extra={"bounds": {"max_jobs": 4 if ctx.quick else 5}, "alphabet_sizes": {"statepoints": len(POINTS)}},
        floor_distinct=100)
    report.assumptions += ["diff_jobs compares values with Python equality (1 == 1.0 == True), as the property states",
                           "lists appear as tuples in both results", "empty mappings as values are outside the universe"]
    return report


def replay(payload, ctx):
    sps = payload["input"]["statepoints"]
    idxs = []
    for sp in sps:
        for i, pnt in enumerate(POINTS):
            if canon.typed_eq(pnt, sp):
                idxs.append(i)
                break
    return evaluate(tuple(idxs))["viol"]
