"""C07 — all query front ends, cursors and groupby agree with find_jobs.

Engine I over the C06 on-disk corpora: (a) every rewrite-closure spelling of every atom and of a
depth-2 set (nested/dotted key, no prefix / sp. / {"sp":..}, operator nested / key suffix, mapping /
sequence of pairs / find_jobs string / command-line tokens) selects the reference id set;
(b) cursor len / iter / index / slice / membership describe one id set; (c) groupby partitions.
"""
import contextlib
import io
import itertools
import json
import os
import re
import sys

from .. import canon, engine_i
from .. import universe_q as U
from ..refmodels import query as Q
from ..runner import Report
from . import c06

PROPERTY = "C07"
LEVEL = "exploration"


# ------------------------------------------------------------------ spellings
def _nest(components, leaf):
    for c in reversed(components):
        leaf = {c: leaf}
    return leaf


def mapping_spellings(atom):
    """All mapping spellings of one atom: [(tag, filter)]."""
    p, op, arg = atom
    ns, nodes = U.PATHS[p]
    out = []
    ns_modes = ("none", "dotted", "nested") if ns == "sp" else ("dotted", "nested")
    op_modes = (None,) if op is None else ("nested", "suffix")
    path_modes = ("dotted",) if len(nodes) == 1 else ("dotted", "nested", "mixed")
    for nsm, opm, pm in itertools.product(ns_modes, op_modes, path_modes):
        comps = list(nodes)
        leaf = arg
        if opm == "nested":
            leaf = {op: arg}
        elif opm == "suffix":
            comps[-1] = comps[-1] + "." + op
        if pm == "dotted":
            inner_comps = [".".join(comps)]
        elif pm == "nested":
            inner_comps = comps
        else:  # first node separate, rest dotted
            inner_comps = [comps[0], ".".join(comps[1:])]
        if nsm == "none":
            f = _nest(inner_comps, leaf)
        elif nsm == "dotted":
            f = _nest([ns + "." + inner_comps[0]] + inner_comps[1:], leaf)
        else:
            f = _nest([ns] + inner_comps, leaf)
        out.append((f"{nsm}/{opm}/{pm}", f))
    return out


def _value_token(v):
    """Command-line token of a scalar/list value, or None if its text does not cast back to itself."""
    if v is True:
        return "true"
    if v is False:
        return "false"
    if v is None:
        return "null"
    if isinstance(v, (int, float)):
        return repr(v)
    if isinstance(v, list):
        return json.dumps(v)
    if isinstance(v, str):
        # conservative, independent of signac's internals: purely alphabetic words that no reader could take for a
        # number, a constant, JSON or a regular expression
        if not re.fullmatch(r"[A-Za-z][A-Za-z_]*", v) or v.lower() in ("true", "false", "null", "none", "nan", "inf", "infinity"):
            return None
        return v
    return None


def _number_token_variants(v):
    """Other texts Python's int() / float() read as the same number (the simple token syntax casts with them)."""
    if isinstance(v, bool) or not isinstance(v, (int, float)):
        return []
    out = []
    if isinstance(v, int) and 0 <= v < 10**6:
        out += ["+%d" % v, "0%d" % v]
    if isinstance(v, float):
        r = repr(v)
        if r.startswith("0.") and v != 0:
            out.append(r[1:])          # .5
        if v == int(v) and abs(v) < 10**6:
            out.append("%d." % int(v))  # 1.
            if v >= 0:
                out.append("+" + r)
    return out


def token_spellings(atom):
    """[(tag, tokens)] for the command line / find_jobs string form."""
    p, op, arg = atom
    ns, nodes = U.PATHS[p]
    keys = [".".join(nodes)] if ns == "sp" else []
    keys.append(ns + "." + ".".join(nodes))
    out = []
    for k in keys:
        if op is None:
            t = _value_token(arg)
            if t is not None:
                out.append(("tok/plain", [k, t]))
            for alt in _number_token_variants(arg):
                out.append(("tok/plain-alt", [k, alt]))
        else:
            t = _value_token(arg)
            if t is not None:
                out.append(("tok/suffix", [k + "." + op, t]))
            out.append(("tok/json-value", [k, json.dumps({op: arg})]))
            if op == "$exists" and arg is True:
                out.append(("tok/bare-key", [k]))
                out.append(("tok/bang", [k, "!"]))
            if op == "$regex" and arg:
                out.append(("tok/regex", [k, "/" + arg + "/"]))
    return out


def _find_ids(kind, spelled, d):
    """Run one spelling through the matching front end; returns set of ids."""
    import signac
    from signac.filterparse import parse_filter_arg

    p = signac.Project(d)
    if kind == "mapping":
        return {j.id for j in p.find_jobs(spelled)}
    if kind == "pairs":
        return {j.id for j in p.find_jobs(list(spelled.items()))}
    if kind == "string":
        return {j.id for j in p.find_jobs(" ".join(spelled))}
    if kind == "tokens":
        with contextlib.redirect_stderr(io.StringIO()):
            f = parse_filter_arg(spelled) or None
        return {j.id for j in p.find_jobs(f)}
    if kind == "cli":
        from signac.__main__ import main

        old_argv, old_cwd = sys.argv, os.getcwd()
        out, err = io.StringIO(), io.StringIO()
        try:
            os.chdir(d)
            sys.argv = ["signac", "find"] + list(spelled)
            with contextlib.redirect_stdout(out), contextlib.redirect_stderr(err):
                try:
                    main()
                except SystemExit as e:
                    if e.code not in (0, None):
                        raise RuntimeError(f"signac find exited with {e.code}: {err.getvalue()[-300:]}")
        finally:
            sys.argv = old_argv
            os.chdir(old_cwd)
        return {line.strip() for line in out.getvalue().splitlines() if line.strip()}
    raise ValueError(kind)


def all_spellings(base, thorough):
    """base = ('atom', atom) | ('combo', tag, [atoms]) -> (reference filter, [(tag, kind, spelled)])."""
    out = []
    if base[0] == "atom":
        atom = base[1]
        ref = U.spell(atom)
        for tag, f in mapping_spellings(atom):
            out.append((tag, "mapping", f))
        out.append(("pairs", "pairs", mapping_spellings(atom)[0][1]))
        out.append(("json-token", "tokens", [json.dumps(ref)]))
        for tag, toks in token_spellings(atom):
            out.append((tag, "tokens", toks))
            if all(not any(c.isspace() for c in t) for t in toks):
                out.append((tag + "/string", "string", toks))
            elif all(not any(c.isspace() for c in json.dumps(json.loads(t), separators=(",", ":")))
                     if t[:1] in "{[" else True for t in toks):
                compact = [json.dumps(json.loads(t), separators=(",", ":")) if t[:1] in "{[" else t for t in toks]
                if all(not any(c.isspace() for c in t) for t in compact):
                    out.append((tag + "/string", "string", compact))
            if thorough and not any(t.startswith("-") for t in toks):
                # (argparse takes a token starting with '-' for an option: not a property of the query language)
                out.append((tag + "/cli", "cli", toks))
        return ref, out
    _, tag, atoms_ = base
    variants = [mapping_spellings(a) for a in atoms_]

    def build(parts):
        if tag == "and":
            return {"$and": parts}
        if tag == "or":
            return {"$or": parts}
        if tag == "not":
            return {"$not": parts[0]}
        if tag == "sibling":
            return U.merge(*parts)
        if tag == "not+sibling":
            return U.merge({"$not": parts[0]}, parts[1])
        raise ValueError(tag)
    ref = build([U.spell(a) for a in atoms_])
    if ref is None:
        return None, []
    nvar = max(len(v) for v in variants)
    for k in range(nvar):
        parts = [v[k % len(v)][1] for v in variants]
        f = build(parts)
        if f is None:
            continue
        out.append((f"{tag}/variant{k}", "mapping", f))
    out.append((f"{tag}/pairs", "pairs", ref))
    out.append((f"{tag}/json-token", "tokens", [json.dumps(ref)]))
    if thorough:
        out.append((f"{tag}/json-token/cli", "cli", [json.dumps(ref)]))
    if tag == "sibling":
        toks = []
        for a in atoms_:
            ts = token_spellings(a)
            if not ts:
                toks = None
                break
            toks += ts[0][1]
        if toks and len(toks) == 2 * len(atoms_):
            out.append(("sibling/tokens", "tokens", toks))
            if thorough and not any(t.startswith("-") for t in toks):
                out.append(("sibling/tokens/cli", "cli", toks))
        # key/value pairs followed by a bare key (= "that key exists"): an odd number of tokens
        last = atoms_[-1]
        if len(atoms_) >= 2 and last[1] == "$exists" and last[2] is True:
            toks = []
            for a in atoms_[:-1]:
                ts = [t for t in token_spellings(a) if len(t[1]) == 2]
                if not ts:
                    toks = None
                    break
                toks += ts[0][1]
            if toks:
                bare = [t for t in token_spellings(last) if t[0] == "tok/bare-key"]
                if bare:
                    out.append(("sibling/tokens+bare-key", "tokens", toks + bare[0][1]))
                    if all(not any(c.isspace() for c in t) for t in toks):
                        out.append(("sibling/tokens+bare-key/string", "string", toks + bare[0][1]))
    return ref, out


def _ref_ids(jobs, filter_):
    tree = Q.atoms(filter_)
    want = set()
    for jid, (sp, doc) in jobs.items():
        if Q.eval_tree(tree, sp, doc):  # may raise IllTyped
            want.add(jid)
    return want


def eval_spell(item):
    _, ci, salt, bases, thorough = item
    d, jobs = c06._disk_project(ci, salt)
    viol, n, skipped = [], 0, 0
    nt = set()
    for base in bases:
        base = tuple(base)
        ref, spells = all_spellings(base, thorough)
        if ref is None:
            continue
        try:
            want = _ref_ids(jobs, ref)
        except Q.IllTyped:
            skipped += 1
            continue
        results = {}
        for tag, kind, spelled in spells:
            n += 1
            try:
                got = _find_ids(kind, spelled, d)
                exc = None
            except Exception as e:  # noqa
                got, exc = None, f"{type(e).__name__}: {e}"
            results[tag] = got
            nt.add((tag.split("/")[0], kind))
            if exc is not None or got != want:
                if len(viol) < 4:
                    viol.append({"sig": {"kind": "spelling-selects-different-jobs" if exc is None else "spelling-raises",
                                         "front_end": kind, "spelling": tag.split("/variant")[0]},
                                 "scenario": f"spelling/corpus{ci}",
                                 "input": {"base": list(base), "spelling_tag": tag, "front_end": kind, "spelled": spelled,
                                           "corpus_index": ci, "salt": salt, "part": "spell",
                                           "corpus": [[sp, doc] for sp, doc in jobs.values()]},
                                 "expected": sorted(want), "observed": sorted(got) if got is not None else exc,
                                 "msg": f"{kind} spelling {spelled!r} of {json.dumps(ref)} selects "
                                        f"{sorted(got) if got is not None else exc}, reference {sorted(want)}"})
    o = {"cls": f"spell{ci}", "viol": viol, "n": n, "nt": sorted(nt), "nt_many": True,
         "sample": {"corpus": ci, "bases": len(bases), "spellings_run": n}}
    if n == 0:
        o["skip"] = "ill-typed ordering comparison"
    return o


# ------------------------------------------------------------------ cursor
def eval_cursor(item):
    import signac

    _, ci, salt, filters = item
    d, jobs = c06._disk_project(ci, salt)
    viol, n = [], 0
    nt = set()
    extra_sps = [{"a": 99, "s": salt}, {"zz": 1, "s": salt}]

    def bad(kind, msg, f, expected, observed):
        if len(viol) < 4:
            viol.append({"sig": {"kind": kind}, "scenario": f"cursor/corpus{ci}",
                         "input": {"filter": f, "corpus_index": ci, "salt": salt, "part": "cursor",
                                   "corpus": [[sp, doc] for sp, doc in jobs.values()]},
                         "expected": expected, "observed": observed, "msg": msg})

    for f in filters:
        try:
            want = _ref_ids(jobs, f) if f else set(jobs)
        except Q.IllTyped:
            continue
        p = signac.Project(d)
        try:
            cur = p.find_jobs(f)
            L = [j.id for j in cur]
            n += 1
            if set(L) != want or len(L) != len(set(L)):
                bad("cursor-iteration-wrong", f"iteration of find_jobs({f}) gives {L}, reference {sorted(want)}",
                    f, sorted(want), L)
                continue
            m = len(L)
            nt.add(m)
            for fresh in (False, True):
                c = p.find_jobs(f) if fresh else cur
                if len(c) != m:
                    bad("cursor-len-wrong", f"len(cursor)={len(c)} but iteration yields {m} jobs (filter {f})", f, m, len(c))
            if [j.id for j in cur] != L:
                bad("cursor-second-iteration-differs", "second iteration differs", f, L, [j.id for j in cur])
            c2 = signac.Project(d).find_jobs(f)
            for i in range(-m, m):
                n += 1
                if c2[i].id != L[i]:
                    bad("cursor-index-wrong", f"cursor[{i}].id = {c2[i].id}, iteration says {L[i]}", f, L[i], c2[i].id)
            ends = [None, 0, 1, m - 1, m]
            for a, b, s in itertools.product(ends, ends, (None, 1, 2, -1)):
                n += 1
                got = [j.id for j in c2[slice(a, b, s)]]
                if got != L[slice(a, b, s)]:
                    bad("cursor-slice-wrong", f"cursor[{a}:{b}:{s}] gives {got}, list slice {L[slice(a, b, s)]}", f,
                        L[slice(a, b, s)], got)
            c3 = signac.Project(d).find_jobs(f)
            for jid, (sp, doc) in jobs.items():
                n += 1
                for handle in (p.open_job(sp), p.open_job(id=jid)):
                    if (handle in c3) != (jid in want):
                        bad("cursor-contains-wrong", f"({jid} in cursor) = {handle in c3}, id set says {jid in want} (filter {f})",
                            f, jid in want, handle in c3)
            # the same project reached through a symbolic link to its root: the same jobs, hence the same members
            link = d.rstrip(os.sep) + "_via_link"
            if not os.path.lexists(link):
                os.symlink(d, link, target_is_directory=True)
            pl = signac.Project(link)
            for jid, (sp, doc) in jobs.items():
                n += 1
                if (pl.open_job(sp) in c3) != (jid in want):
                    bad("cursor-contains-wrong", f"({jid} in cursor) through a project handle opened via a symlinked root = "
                        f"{pl.open_job(sp) in c3}, id set says {jid in want} (filter {f})", f, jid in want, pl.open_job(sp) in c3)
            for sp in extra_sps:
                n += 1
                if p.open_job(sp) in c3:
                    bad("cursor-contains-wrong", f"uninitialised job {sp} reported as member (filter {f})", f, False, True)
        except Exception as e:  # noqa
            bad("cursor-raises", f"cursor operation raised {type(e).__name__}: {e} (filter {f})", f, None, repr(e))
    return {"cls": f"cursor{ci}", "viol": viol, "n": n, "nt": [f"len{m}" for m in nt] + [f"c{ci}"], "nt_many": True,
            "sample": {"corpus": ci, "filters": len(filters), "cursor_ops": n}}


def eval_cursor_history(item):
    """A cursor that was evaluated, then the workspace changes (a matching job appears, a matching job is removed), then the
    SAME cursor is used again: whatever it reports, len / iteration / indexing / membership must describe one id set."""
    import shutil

    import signac

    _, ci, salt = item
    corpus = list(c06.disk_corpora())[ci]
    viol, n = [], 0
    base = os.path.join(c06.scratch.worker_dir(), f"c07-curhist-{ci}")
    new_sp = {"a": 99, "s": salt, "fresh": True}
    # (the unfiltered cursor answers len / membership from the live project by design; it is not part of this clause)
    for f in ({"a": 99}, {"doc.x": 7}, {"a": {"$exists": True}}, {"fresh": True}, {"$or": [{"a": 99}, {"a": 1}]}):
        for first_use in ("len", "iter", "contains"):
            shutil.rmtree(base, ignore_errors=True)
            os.makedirs(base)
            p0 = signac.init_project(base)
            handles = []
            for sp, doc in corpus:
                j = p0.open_job(dict(sp, s=salt)).init()
                if doc:
                    j.doc.update(doc)
                handles.append(j)
            p = signac.Project(base)
            cur = p.find_jobs(f)
            try:
                if first_use == "len":
                    len(cur)
                elif first_use == "iter":
                    list(cur)
                else:
                    p.open_job(new_sp) in cur
                other = signac.Project(base)
                nj = other.open_job(new_sp).init()
                nj.doc.x = 7
                if handles:
                    other.open_job(id=handles[0].id).remove()
                universe_jobs = [p.open_job(id=nj.id)] + [p.open_job(dict(sp, s=salt)) for sp, _ in corpus]
                for order in (("len", "iter", "contains"), ("contains", "iter", "len")):
                    obs = {}
                    for what in order:
                        if what == "len":
                            obs["len"] = len(cur)
                        elif what == "iter":
                            obs["iter"] = [j.id for j in cur]
                        else:
                            obs["contains"] = sorted(j.id for j in universe_jobs if j in cur)
                    n += 1
                    ids = obs["iter"]
                    idx = [cur[i].id for i in range(len(ids))]
                    if obs["len"] != len(ids) or sorted(set(ids) & {j.id for j in universe_jobs}) != obs["contains"] or idx != ids:
                        if len(viol) < 3:
                            viol.append({"sig": {"kind": "cursor-contradicts-itself", "first_use": first_use}, "scenario": f"cursor-history/corpus{ci}",
                                         "input": {"part": "cursor-history", "corpus_index": ci, "salt": salt, "filter": f},
                                         "expected": "len, iteration, indexing and membership describing one id set", "observed": obs,
                                         "msg": f"cursor of find_jobs({json.dumps(f)}) first used by {first_use}, then a matching job "
                                                f"was added and one removed: len {obs['len']}, iteration {ids}, indexing {idx}, "
                                                f"members {obs['contains']}"})
            except Exception as e:  # noqa
                if c06.engine_i.raised_inside_signac(e) and len(viol) < 3:
                    viol.append({"sig": {"kind": "cursor-raises", "history": True}, "scenario": f"cursor-history/corpus{ci}",
                                 "input": {"part": "cursor-history", "corpus_index": ci, "salt": salt, "filter": f},
                                 "expected": "no exception", "observed": repr(e),
                                 "msg": f"re-using a cursor of find_jobs({json.dumps(f)}) after the workspace changed raised {type(e).__name__}: {e}"})
                elif not c06.engine_i.raised_inside_signac(e):
                    raise
    shutil.rmtree(base, ignore_errors=True)
    return {"cls": f"curhist{ci}", "viol": viol, "n": n, "nt": [f"curhist{ci}"], "nt_many": True,
            "sample": {"corpus": ci, "cursor_histories": n}}


# ------------------------------------------------------------------ groupby
GROUP_KEYS = ["spin.up", "sp.docs.k", "a", "sp.a", "b.c", "sp.b.c", "doc.x", "doc.n.m", "b", "doc.n", ["a", "doc.x"], ["sp.a", "b.c"],
              ["doc.x", "doc.n.m"], ["doc.x", "a"], ["a"], None, "callable:a", "callable:id"]
GROUP_DEFAULTS = [None, -1, "zz", 0, False, ""]
GROUP_FILTERS = [None, {"a": {"$exists": True}}, {"doc.x": {"$exists": True}}, {"a": {"$lt": 3}},
                 {"$and": [{"a": {"$exists": True}}, {"a": {"$lt": 3}}]}]


def _own_value(sp, doc, key):
    ns, path = ("doc", key[4:]) if key.startswith("doc.") else ("sp", key[3:] if key.startswith("sp.") else key)
    root = sp if ns == "sp" else (doc or {})
    return Q.resolve(root, tuple(path.split(".")))


def eval_groupby(item):
    import signac

    _, ci, salt, specs = item
    d, jobs = c06._disk_project(ci, salt)
    viol, n, skipped = [], 0, 0
    nt = set()

    def bad(kind, msg, spec, expected, observed, **extra):
        if len(viol) < 4:
            viol.append({"sig": dict(kind=kind, **extra), "scenario": f"groupby/corpus{ci}",
                         "input": {"spec": spec, "corpus_index": ci, "salt": salt, "part": "groupby",
                                   "corpus": [[sp, doc] for sp, doc in jobs.values()]},
                         "expected": expected, "observed": observed, "msg": msg})

    for spec in specs:
        key, default, filt = spec
        try:
            selected = _ref_ids(jobs, filt) if filt else set(jobs)
        except Q.IllTyped:
            continue
        keys = key if isinstance(key, list) else [key]
        nested = any(isinstance(k, str) and not k.startswith("callable:") and
                     len((k[4:] if k.startswith("doc.") else (k[3:] if k.startswith("sp.") else k)).split(".")) > 1
                     for k in keys if k is not None)
        # expected partition
        exp = {}
        domain_ok = True
        for jid in selected:
            sp, doc = jobs[jid]
            if key is None:
                label = jid
            elif isinstance(key, str) and key.startswith("callable:"):
                label = jid if key == "callable:id" else sp.get("a", Q.MISSING)
                if label is Q.MISSING:
                    domain_ok = False  # the callable itself would raise: outside the domain
                    break
            else:
                vals = [_own_value(sp, doc, k) for k in keys]
                if any(v is Q.MISSING for v in vals):
                    if default is None:
                        continue
                    vals = [default if v is Q.MISSING else v for v in vals]
                label = vals[0] if isinstance(key, str) else tuple(vals)
            exp[jid] = label
        if not domain_ok:
            skipped += 1
            continue
        # labels must be sortable (documented)
        try:
            sorted((_lab(v) for v in exp.values()))
        except TypeError:
            skipped += 1
            continue
        p = signac.Project(d)
        filt_given = json.loads(json.dumps(filt))  # the object handed to signac; `filt` stays the pristine reference
        cur = p.find_jobs(filt_given)
        call_key = key
        if isinstance(key, str) and key.startswith("callable:"):
            call_key = (lambda job: job.id) if key == "callable:id" else (lambda job: job.sp["a"])
        n += 1
        try:
            with _quiet():
                groups = [(label, [j.id for j in grp]) for label, grp in cur.groupby(call_key, default=default)]
        except Exception as e:  # noqa
            bad("groupby-raises", f"groupby({key!r}, default={default!r}) on selection {filt} raised "
                                  f"{type(e).__name__}: {e}", [key, default, filt], "a partition", repr(e),
                nested_key=nested, exc=type(e).__name__)
            continue
        nt.add((json.dumps(key), default is None, len(groups)))
        # grouping must not change what the cursor itself (or the filter object the caller passed) selects
        if filt_given != filt:
            bad("groupby-changes-callers-filter", f"groupby({key!r}, default={default!r}) changed the filter object the caller passed: "
                f"{filt_given} (was {filt})", [key, default, filt], filt, filt_given)
        try:
            after_ids = sorted(j.id for j in cur)
            if after_ids != sorted(selected) or len(cur) != len(selected):
                bad("groupby-changes-cursor", f"after groupby({key!r}, default={default!r}) the cursor built from {filt} yields "
                    f"{after_ids} (len {len(cur)}), it selected {sorted(selected)}", [key, default, filt], sorted(selected), after_ids)
            with _quiet():
                again = [(canon.plain(l) if not isinstance(l, tuple) else tuple(canon.plain(x) for x in l), [j.id for j in g])
                         for l, g in cur.groupby("a", default=-7)]
                fresh = [(canon.plain(l) if not isinstance(l, tuple) else tuple(canon.plain(x) for x in l), [j.id for j in g])
                         for l, g in signac.Project(d).find_jobs(filt).groupby("a", default=-7)]
            if again != fresh:
                bad("groupby-changes-cursor", f"a second groupby on the cursor already grouped by {key!r} gives {again}, a fresh "
                    f"cursor gives {fresh}", [key, default, filt], fresh, again)
        except TypeError:
            pass  # unsortable labels for the probe key: outside the domain
        except Exception as e:  # noqa
            bad("groupby-changes-cursor", f"re-using the cursor after groupby({key!r}) raised {type(e).__name__}: {e}",
                [key, default, filt], None, repr(e))
        members = [j for _, g in groups for j in g]
        if len(members) != len(set(members)):
            bad("groupby-not-disjoint", f"a job appears in two groups: {groups}", [key, default, filt], None, groups)
        if set(members) != set(exp):
            bad("groupby-wrong-members", f"groupby({key!r}, default={default!r}) on {filt} covers {sorted(set(members))}, "
                                         f"expected {sorted(exp)}", [key, default, filt], sorted(exp), sorted(set(members)),
                nested_key=nested)
            continue
        labels = [canon.tagged(_lab(canon.plain(label))) for label, _ in groups]
        if len(labels) != len(set(labels)) and False:
            pass
        for label, g in groups:
            for jid in g:
                if not _lab_eq(label, exp[jid]):
                    bad("groupby-label-wrong", f"job {jid} with own value {exp[jid]!r} sits in group labelled {label!r}",
                        [key, default, filt], repr(exp[jid]), repr(label))
    return {"cls": f"groupby{ci}", "viol": viol, "n": n, "nt": [repr(x) for x in nt], "nt_many": True,
            "sample": {"corpus": ci, "groupby_calls": n, "skipped_unsortable": skipped}}


@contextlib.contextmanager
def _quiet():
    import warnings
    with warnings.catch_warnings():
        warnings.simplefilter("ignore")
        yield


def _lab(v):
    if isinstance(v, (list, tuple)):
        return tuple(_lab(x) for x in v)
    if isinstance(v, dict):
        raise TypeError("mapping label")
    return v


def _lab_eq(a, b):
    try:
        return _lab(canon.plain(a)) == _lab(canon.plain(b))
    except TypeError:
        return canon.plain(a) == canon.plain(b)


def evaluate(item):
    return {"spell": eval_spell, "cursor": eval_cursor, "groupby": eval_groupby, "curhist": eval_cursor_history}[item[0]](item)


# ------------------------------------------------------------------ universe
def bases(quick):
    for a in U.all_atoms():
        yield ("atom", a)
    reps = U.R8 if quick else U.R30[:14] + U.R8
    for x in reps:
        yield ("combo", "not", [x])
    for x, y in itertools.product(reps, repeat=2):
        for tag in ("and", "or", "sibling", "not+sibling"):
            yield ("combo", tag, [x, y])


def cursor_filters():
    yield None
    yield {}
    for a in U.R30:
        yield U.spell(a)
    yield {"$or": [{"a": 1}, {"doc.x": 1}]}
    yield {"$not": {"a": {"$exists": True}}}


def universe(tier, salt):
    quick = tier == "quick"
    ncorp = len(list(c06.disk_corpora()))
    bl = list(bases(quick))
    cf = list(cursor_filters())
    specs = [[k, dflt, f] for k in GROUP_KEYS for dflt in GROUP_DEFAULTS for f in GROUP_FILTERS]
    for ci in range(ncorp):
        for k in range(0, len(bl), 40):
            yield ("spell", ci, salt, bl[k:k + 40], not quick)
        for k in range(0, len(cf), 8):
            yield ("cursor", ci, salt, cf[k:k + 8])
        for k in range(0, len(specs), 30):
            yield ("groupby", ci, salt, specs[k:k + 30])
        yield ("curhist", ci, salt)


def run(ctx):
    report = Report(LEVEL)
    tot = engine_i.run_items(ctx, universe(ctx.tier, ctx.seed), evaluate, chunk=2)
    engine_i.fill_report(report, tot, rule=(
        "15 on-disk corpora x {all atoms + depth-2 combinations: every mapping spelling (namespace none/dotted/nested x "
        "operator nested/suffix x path dotted/nested/mixed), sequence of pairs, JSON token, command-line tokens, "
        "find_jobs string form (thorough: also signac.__main__.main())} ; x 34 filters: len/iter/index/all slices/"
        "membership of every universe job ; x 18 grouping keys x 6 defaults (None, -1, 'zz', 0, False, '') x 5 selections ; cursors re-used after the workspace changed. "
        "distinct_nontrivial = distinct (spelling kind, front end) / cursor lengths / groupby shapes exercised"),
        extra={"bounds": {"disk_corpora": len(list(c06.disk_corpora())), "combo_atoms": 8 if ctx.quick else 22},
               "alphabet_sizes": {"bases": len(list(bases(ctx.quick))), "group_keys": len(GROUP_KEYS)}},
        floor_distinct=20)
    report.assumptions += ["token spellings are generated only for values whose text casts back to the value",
                           "corpora whose group labels Python cannot sort are outside the domain (documented: must be sortable)",
                           "reference id sets come from vlib/refmodels/query.py"]
    return report


def replay(payload, ctx):
    inp = payload["input"]
    ci, salt = inp["corpus_index"], inp.get("salt", 0)
    if inp["part"] == "spell":
        base = inp["base"]
        if base[0] == "atom":
            base = ("atom", tuple(base[1]))
        else:
            base = ("combo", base[1], [tuple(a) for a in base[2]])
        vs = eval_spell(("spell", ci, salt, [base], True))["viol"]
        return [v for v in vs if v["input"]["spelling_tag"] == inp["spelling_tag"]] or vs
    if inp["part"] == "cursor-history":
        return eval_cursor_history(("curhist", ci, salt))["viol"]
    if inp["part"] == "cursor":
        return eval_cursor(("cursor", ci, salt, [inp["filter"]]))["viol"]
    return eval_groupby(("groupby", ci, salt, [inp["spec"]]))["viol"]
