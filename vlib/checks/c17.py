"""C17 — a linked view is an exact, self-healing picture of the selected jobs.

Engine H per state point universe: events add / remove / re-key job, create_view (all jobs),
create_view(job_ids=subset) for every subset, create_view(path=spec).  State = (workspace, view tree).
At every create_view: (i) incremental tree == tree built from scratch under a fresh prefix,
(ii) == reference (one link 'job' per selected job at a path alternating the job's non-constant
keys and values, nothing else, no empty directory, no dangling link), (iii) a second call is a no-op,
(iv) unrepresentable inputs raise and leave the existing view untouched.
"""
import itertools
import json
import os
import shutil

from .. import canon, engine_h, env, scratch
from ..runner import Report

PROPERTY = "C17"
LEVEL = "model_checking"
_U = {"name": None, "sps": None, "salt": 0}

UNIVERSES = {
    "homogeneous": [{"a": 0}, {"a": 1}, {"a": 2}],
    "two-keys": [{"a": 0, "b": 0}, {"a": 0, "b": 1}, {"a": 1, "b": 0}, {"a": 1, "b": 1}],
    "nested": [{"c": {"d": 0}}, {"c": {"d": 1}}, {"c": {"d": 1}, "e": 1}],
    "odd-values": [{"a": "x y"}, {"a": "1.5"}, {"a": 0.5}, {"a": "é"}],
    "heterogeneous": [{"a": 0}, {"a": 1, "b": 2}, {"b": 3}, {"a": 0, "z": 1}],
    "colliding-text": [{"a": 1}, {"a": "1"}, {"a": 1.0}, {"a": True}],
    "separator": [{"a": "x/y"}, {"a": 0}, {"a": 1}, {"a": "x/"}],
    # a state point key spelled like the link name: the link of one job and a directory of another compete for one path
    "job-key": [{"a": 1}, {"a": 1, "job": 2}, {"a": 2, "job": 3}],
}
# "a/{b}" spells the same directories as "a/{a}" wherever the values of a and b are permutations of each other:
# re-running with the other spec keeps every view path and changes every target
PATH_SPECS = ["id/{job.id}", "const", "a/{a}", "a/{b}"]


def flat(sp, prefix=None):
    out = {}
    for k, v in sp.items():
        kk = k if prefix is None else prefix + "." + k
        if isinstance(v, dict) and v:
            out.update(flat(v, kk))
        else:
            out[kk] = v
    return out


def has_sep(sp):
    return any(isinstance(x, str) and os.sep in x for x in list(sp.keys()) + list(sp.values()))


def reference_links(selected, path):
    """selected: {id: sp}.  Returns ('links', {id: set of acceptable component multisets or exact path}) or ('reject', why)."""
    if any(has_sep(sp) for sp in selected.values()):
        return "reject", "separator in key or value"
    if path is not None:
        paths = {}
        for jid, sp in selected.items():
            if path == "id/{job.id}":
                paths[jid] = os.path.join("id", jid)
            elif path == "const":
                paths[jid] = "const"
            elif path == "a/{a}":
                if "a" not in sp:
                    return "reject", "path spec names a key the job lacks"
                paths[jid] = os.path.join("a", str(sp["a"]))
            elif path == "a/{b}":
                if "b" not in sp:
                    return "reject", "path spec names a key the job lacks"
                paths[jid] = os.path.join("a", str(sp["b"]))
        if len(set(paths.values())) != len(paths):
            return "reject", "non-unique path specification"
        return "exact", {jid: os.path.normpath(os.path.join(p, "job")) for jid, p in paths.items()}
    if len(selected) <= 1:
        return "exact", {jid: "job" for jid in selected}
    flats = {jid: flat(sp) for jid, sp in selected.items()}
    keys = set(k for f in flats.values() for k in f)
    nonconst = set()
    for k in keys:
        vals = [f[k] for f in flats.values() if k in f]
        if len(vals) < len(flats) or len({canon.tagged(_t(v)) for v in vals}) > 1:
            nonconst.add(k)
    pairs = {}
    for jid, f in flats.items():
        pr = sorted((k, str(_t(f[k]))) for k in f if k in nonconst)
        if not pr:
            return "reject", "a job has no distinguishing key (heterogeneous schema without a path)"
        pairs[jid] = pr
    if len({tuple(p) for p in pairs.values()}) != len(pairs):
        return "reject", "two jobs have the same textual key/value pairs"
    return "pairs", pairs


def _t(v):
    return tuple(_t(x) for x in v) if isinstance(v, list) else v


def view_tree(prefix):
    """{relpath: 'd' | ('l', realpath of target, dangling?)}"""
    out = {}
    if not os.path.isdir(prefix):
        return out
    for dp, dn, fn in os.walk(prefix):
        for n in dn + fn:
            p = os.path.join(dp, n)
            rel = os.path.relpath(p, prefix)
            if os.path.islink(p):
                out[rel] = ("l", os.path.realpath(p), not os.path.exists(p))
            elif os.path.isdir(p):
                out[rel] = "d"
            else:
                out[rel] = "f"
    return out


def judge_tree(tree, selected, ws, ref):
    """Compare a view tree with the reference. Returns list of (kind, msg)."""
    out = []
    kind, data = ref
    links = {rel: v for rel, v in tree.items() if isinstance(v, tuple)}
    dirs = {rel for rel, v in tree.items() if v == "d"}
    files = [rel for rel, v in tree.items() if v == "f"]
    if files:
        out.append(("view-contains-foreign-entry", f"regular files in the view: {files}"))
    by_target = {}
    for rel, (_, target, dangling) in links.items():
        if dangling:
            out.append(("dangling-link", f"{rel} -> {target} does not exist"))
        if os.path.basename(rel) != "job":
            out.append(("view-contains-foreign-entry", f"link {rel} is not named 'job'"))
        by_target.setdefault(target, []).append(rel)
    want_targets = {os.path.realpath(os.path.join(ws, jid)): jid for jid in selected}
    for t, rels in by_target.items():
        if t not in want_targets:
            out.append(("link-to-unselected-or-obsolete-job", f"{rels} -> {t} is not a selected job"))
        elif len(rels) > 1:
            out.append(("duplicate-links", f"job {want_targets[t]} linked {len(rels)} times: {rels}"))
    for t, jid in want_targets.items():
        if t not in by_target:
            out.append(("selected-job-not-linked", f"job {jid} {selected[jid]} has no link"))
            continue
        rel = by_target[t][0]
        if kind == "exact":
            if os.path.normpath(rel) != data[jid]:
                out.append(("link-path-wrong", f"job {jid}: link at {rel}, expected {data[jid]}"))
        else:
            comps = os.path.dirname(rel).split(os.sep) if os.path.dirname(rel) else []
            got = sorted(zip(comps[0::2], comps[1::2])) if len(comps) % 2 == 0 else None
            if got != data[jid]:
                out.append(("link-path-wrong", f"job {jid} {selected[jid]}: link at {rel}, expected the pairs {data[jid]}"))
    # nothing but the directories leading to links
    needed = set()
    for rel in links:
        d = os.path.dirname(rel)
        while d:
            needed.add(d)
            d = os.path.dirname(d)
    if dirs - needed:
        out.append(("empty-directory-left", f"directories not leading to any link: {sorted(dirs - needed)}"))
    return out


def execute(hist):
    import signac

    sps_all = _U["sps"]
    salt = _U["salt"]
    sps = [dict(s, salt=salt) if salt else dict(s) for s in sps_all]
    viol = []
    n = 0

    def bad(kind, msg, **extra):
        if _U["name"] == "job-key":
            extra = {"key_named_like_link": True}  # one finding, whatever the symptom (see known_findings.json)
        viol.append({"sig": dict(kind=kind, **extra), "scenario": _U["name"],
                     "input": {"universe": _U["name"], "history": [list(o) for o in hist], "salt": salt},
                     "expected": "reference view", "observed": msg, "msg": msg})
    with scratch.fresh("c17") as root:
        pd = os.path.join(root, "p")
        os.makedirs(pd)
        p = signac.init_project(pd)
        ws = os.path.join(pd, "workspace")
        view = os.path.join(root, "view")
        present = {}  # index -> current sp (a re-keyed job keeps its slot)
        for k, op in enumerate(hist):
            last = k == len(hist) - 1
            name = op[0]
            n += 1
            if name == "add":
                p.open_job(sps[op[1]]).init()
                present[op[1]] = sps[op[1]]
            elif name == "remove":
                p.open_job(present.pop(op[1])).remove()
            elif name == "rekey":
                job = p.open_job(present.pop(op[1]))
                job.statepoint = sps[op[2]]
                present[op[2]] = sps[op[2]]
            elif name == "wipe_view":
                # the user deletes the view directory (or a part of it) by hand; the next build starts from what is left
                target = view if op[1] == "all" else next((os.path.join(view, x) for x in sorted(os.listdir(view))
                                                           if os.path.isdir(os.path.join(view, x)) and not os.path.islink(os.path.join(view, x))), None)
                if target is not None:
                    shutil.rmtree(target)
            else:
                if name == "view_all":
                    sel_idx, path = sorted(present), None
                    kwargs = {}
                elif name == "view_subset":
                    sel_idx, path = list(op[1]), None
                    kwargs = {"job_ids": [canon.job_id(present[i]) for i in sel_idx]}
                else:
                    sel_idx, path = sorted(present), op[1]
                    kwargs = {"path": path}
                selected = {canon.job_id(present[i]): present[i] for i in sel_idx}
                ref = reference_links(selected, path)
                before = view_tree(view)
                before_snap = canon.snapshot(view)
                try:
                    # the prefix is spelled with a trailing separator at every other step (same directory)
                    if k % 3 == 2:
                        os.chdir(root)  # ... and relative to the working directory at every third step
                        try:
                            signac.Project(pd).create_linked_view(prefix="view", **kwargs)
                        finally:
                            os.chdir("/")
                    else:
                        signac.Project(pd).create_linked_view(prefix=view + os.sep if k % 2 else view, **kwargs)
                    exc = None
                except Exception as e:  # noqa
                    exc = e
                if not last:
                    if (exc is not None) != (ref[0] == "reject"):
                        raise RuntimeError(f"prefix of a clean history misbehaves on replay: {op}: {exc}")
                    continue
                after = view_tree(view)
                if ref[0] == "reject":
                    if exc is None:
                        bad("unrepresentable-input-accepted", f"{op} with selection {selected}: {ref[1]}, but no exception; "
                            f"view now {sorted(after)}", why=ref[1])
                    elif canon.snapshot(view) != before_snap:
                        bad("rejected-input-altered-view", f"{op} raised {type(exc).__name__} but the view changed", why=ref[1])
                    continue
                if exc is not None:
                    # whatever the reason: a call that fails must not have altered the existing view
                    if canon.snapshot(view) != before_snap:
                        bad("failed-call-altered-view", f"{op} raised {type(exc).__name__}: {exc} and the existing view changed: "
                            f"{canon.snap_diff(before_snap, canon.snapshot(view))[:4]}")
                    elif _U["name"] == "job-key" and isinstance(exc, RuntimeError):
                        pass  # the link of one job would sit where a directory of another must be: a legitimate rejection
                    else:
                        bad("create-view-raises", f"{op} with selection {selected} raised {type(exc).__name__}: {exc}",
                            exc=type(exc).__name__, empty_selection=not selected)
                    continue
                for kind, msg in judge_tree(after, selected, ws, ref):
                    bad(kind, f"after {list(op)} (selection {list(selected.values())}): {msg}", empty_selection=not selected,
                        had_previous_view=bool(before))
                # (i) from scratch under a fresh prefix
                scratch_view = os.path.join(root, "view_scratch")
                try:
                    signac.Project(pd).create_linked_view(prefix=scratch_view, **kwargs)
                    fresh = view_tree(scratch_view)
                    if fresh != after:
                        diff = sorted(set(fresh.items()) ^ set(after.items()), key=str)[:6]
                        bad("incremental-differs-from-scratch", f"after {list(op)}: incremental view differs from a fresh build: {diff}",
                            had_previous_view=bool(before))
                except Exception as e:  # noqa
                    bad("create-view-raises", f"from-scratch build raised {type(e).__name__}: {e}", exc=type(e).__name__,
                        empty_selection=not selected)
                # (iii) second call is a no-op
                snap1 = view_tree(view)
                try:
                    signac.Project(pd).create_linked_view(prefix=view, **kwargs)
                    if view_tree(view) != snap1:
                        bad("second-call-not-noop", f"repeating {list(op)} changed the view")
                except Exception as e:  # noqa
                    bad("create-view-raises", f"second call raised {type(e).__name__}: {e}", exc=type(e).__name__,
                        empty_selection=not selected)
        tree = view_tree(view)
        idx_of = {canon.job_id(s): i for i, s in enumerate(sps)}
        key = json.dumps({"ws": sorted(present),
                          "view": sorted((rel, v if v == "d" else idx_of.get(os.path.basename(v[1]), v[1])) for rel, v in tree.items())},
                         default=str)
    enabled = []
    for i in range(len(sps)):
        if i in present:
            enabled.append(["remove", i])
            for j in range(len(sps)):
                if j not in present:
                    enabled.append(["rekey", i, j])
        else:
            enabled.append(["add", i])
    enabled.append(["view_all"])
    if tree:
        enabled.append(["wipe_view", "all"])
        if any(v == "d" for v in tree.values()):
            enabled.append(["wipe_view", "first-subdirectory"])
    idxs = sorted(present)
    for r in range(0, min(3, len(idxs)) + 1):
        for sub in itertools.combinations(idxs, r):
            if len(sub) != len(idxs):
                enabled.append(["view_subset", list(sub)])
    for spec in PATH_SPECS:
        enabled.append(["view_path", spec])
    return {"key": key, "enabled": enabled, "viol": viol, "n": n, "cls": hist[-1][0] if hist else "init",
            "expected_failure": False}


def _exec(hist):
    return execute(tuple(tuple(tuple(x) if isinstance(x, list) else x for x in o) for o in hist))


def run(ctx):
    report = Report(LEVEL)
    depth = 5 if ctx.quick else 6
    _U["salt"] = ctx.seed
    closed = []
    for name, sps in UNIVERSES.items():
        _U["name"], _U["sps"] = name, sps
        st = engine_h.explore(ctx, _exec, max_depth=depth, chunk=16)
        engine_h.fill_report(report, st)
        closed.append((name, st.closed, st.states))
    report.coverage["bounds"] = {"depth": depth, "universes": {n: {"closed": c, "states": s} for n, c, s in closed}}
    report.coverage["alphabet_sizes"] = {"universes": len(UNIVERSES), "path_specs": len(PATH_SPECS)}
    report.coverage["rule"] = ("per universe BFS over add/remove/re-key/create_view(all | every subset | path spec) histories, "
                               "state = (workspace, view tree); every create_view judged against a from-scratch build and "
                               "the reference picture")
    report.assumptions += ["the order of key/value pairs along a link path is not prescribed (the set of pairs is)",
                           "values are spelled with str()"]
    return report


def replay(payload, ctx):
    inp = payload["input"]
    _U["name"], _U["sps"], _U["salt"] = inp["universe"], UNIVERSES[inp["universe"]], inp.get("salt", 0)
    return _exec(inp["history"])["viol"]
