"""C19 — discovery resolves to the nearest enclosing project; init_project is idempotent.

Engine I: all directory trees of a small grammar (plain directories, projects, job directories in
workspaces - possibly containing further directories and projects -, symlinked job directories) up
to a depth / node bound.  Every directory of every tree (plus non-existent paths) is a query path,
absolute and relative to several working directories.  The reference resolver works on the tree
SPECIFICATION, not on the disk.
"""
import hashlib
import itertools
import json
import os

from .. import canon, engine_i, scratch
from ..runner import Report

PROPERTY = "C19"
LEVEL = "exploration"


# ------------------------------------------------------------------ tree grammar
# node := ("plain", [children]) | ("project", [children], [jobs]);  job := ("job", [children]) | ("link",)
def gen(depth, budget):
    """All nodes of at most `depth` levels using at most `budget` directory nodes (canonical child order)."""
    if budget < 1:
        return
    yield ("plain", ()), 1
    yield ("project", (), ()), 1
    if depth <= 0:
        return
    subs = list(gen(depth - 1, budget - 1))
    # plain with one or two children
    for c, n in subs:
        yield ("plain", (c,)), 1 + n
    for (c1, n1), (c2, n2) in itertools.combinations_with_replacement(subs, 2):
        if 1 + n1 + n2 <= budget and n1 + n2 <= 4:
            yield ("plain", (c1, c2)), 1 + n1 + n2
    # project with an optional plain-side child and up to two jobs
    job_subs = ([(("job", ()), 1)] + [(("job", (c,)), 1 + n) for c, n in gen(depth - 2, budget - 2)] + [(("link",), 1)]
                + [(("jobproj",), 1)])
    for c, n in [(None, 0)] + subs:
        for jobs in ([], [0], [0, 1]):
            for combo in itertools.product(job_subs, repeat=len(jobs)):
                total = 1 + n + sum(j[1] for j in combo)
                if total > budget:
                    continue
                if sum(1 for j in combo if j[0][0] == "link") > 1:
                    continue
                yield ("project", (c,) if c is not None else (), tuple(j[0] for j in combo)), total


def trees(tier):
    depth, budget = (3, 6) if tier == "quick" else (4, 7)
    seen = set()
    for node, n in gen(depth, budget):
        if node[0] != "plain":
            node = ("plain", (node,))  # the tree root is a plain directory (nothing above it is a project)
        k = json.dumps(node)
        if k in seen:
            continue
        seen.add(k)
        if "project" not in k:
            continue
        yield node


# ------------------------------------------------------------------ materialisation + reference
class Layout:
    def __init__(self):
        self.dirs = []  # (relpath, kind) kind in plain/project/workspace/job/jobsub
        self.projects = []  # relpaths
        self.jobs = []  # (relpath of job dir, project relpath, id, is_link)
        self.links = []  # (relpath, project relpath, id)
        self.counter = 0
        self.jobprojs = set()  # job directories that are project roots themselves


def _jid(n):
    return hashlib.md5(f"job{n}".encode()).hexdigest()


def materialise(node, root):
    import signac

    lay = Layout()

    def build(node, rel):
        full = os.path.join(root, rel) if rel else root
        os.makedirs(full, exist_ok=True)
        kind = node[0]
        if kind == "plain":
            lay.dirs.append((rel, "plain"))
            for i, c in enumerate(node[1]):
                build(c, os.path.join(rel, f"d{i}"))
        elif kind == "project":
            lay.dirs.append((rel, "project"))
            lay.projects.append(rel)
            p = signac.init_project(full)
            p.doc["name"] = rel or "root"
            for i, c in enumerate(node[1]):
                build(c, os.path.join(rel, f"s{i}"))
            ws = os.path.join(rel, "workspace")
            lay.dirs.append((ws, "workspace"))
            for j in node[2]:
                lay.counter += 1
                if j[0] == "link":
                    lay.links.append((ws, rel, lay.counter))
                    continue
                sp = {"n": lay.counter}
                job = p.open_job(sp).init()
                job.doc["x"] = lay.counter
                jrel = os.path.join(ws, job.id)
                lay.jobs.append((jrel, rel, job.id, False))
                lay.dirs.append((jrel, "job"))
                if j[0] == "jobproj":
                    lay.jobprojs.add(jrel)
                    # the job directory is itself the root of a nested project
                    lay.projects.append(jrel)
                    np_ = signac.init_project(os.path.join(root, jrel))
                    np_.doc["name"] = jrel
                    # ... which holds a job with the SAME state point (hence the same id) as the job it lives in
                    inner = np_.open_job(sp).init()
                    inner.doc["x"] = -lay.counter
                    iws = os.path.join(jrel, "workspace")
                    lay.dirs.append((iws, "workspace"))
                    irel = os.path.join(iws, inner.id)
                    lay.jobs.append((irel, jrel, inner.id, False))
                    lay.dirs.append((irel, "job"))
                    # ... and one level further down: a project in that job directory, again with a job
                    lay.projects.append(irel)
                    lay.jobprojs.add(irel)
                    np3 = signac.init_project(os.path.join(root, irel))
                    np3.doc["name"] = irel
                    inner3 = np3.open_job({"n": lay.counter, "level": 3}).init()
                    iws3 = os.path.join(irel, "workspace")
                    lay.dirs.append((iws3, "workspace"))
                    lay.jobs.append((os.path.join(iws3, inner3.id), irel, inner3.id, False))
                    lay.dirs.append((os.path.join(iws3, inner3.id), "job"))
                    continue
                for i, c in enumerate(j[1]):
                    build(c, os.path.join(jrel, f"j{i}"))
            p.update_cache()
    build(node, "")
    # symlinked job directories: point at the first real job of another project
    for ws, prel, n in lay.links:
        others = [j for j in lay.jobs if j[1] != prel and not j[3] and j[0] not in lay.jobprojs]
        if not others:
            continue
        target = others[0]
        link = os.path.join(root, ws, target[2])
        if not os.path.lexists(link):
            os.symlink(os.path.join(root, target[0]), link, target_is_directory=True)
            lay.jobs.append((os.path.join(ws, target[2]), prel, target[2], True))
            lay.dirs.append((os.path.join(ws, target[2]), "job"))
    return lay


def ref_get_project(lay, rel, search=True):
    """Nearest enclosing project (textual), or None."""
    parts = rel.split(os.sep) if rel else []
    cands = [os.sep.join(parts[:k]) for k in range(len(parts), -1, -1)]
    if not search:
        cands = cands[:1]
    for c in cands:
        if c in lay.projects:
            return c
    return None


def ref_get_job(lay, rel):
    """(job id, owning project relpath) from the innermost id-named component, or None."""
    parts = rel.split(os.sep) if rel else []
    for k in range(len(parts), 0, -1):
        comp = parts[k - 1]
        if len(comp) == 32 and all(ch in "0123456789abcdef" for ch in comp):
            parent = os.sep.join(parts[:k - 1])  # the directory holding the job directory (a workspace)
            proj = ref_get_project(lay, parent, search=True)
            return (comp, proj) if proj is not None else None
    return None


def evaluate(node):
    import signac

    viol = []
    n = 0
    outcomes = set()
    inp_tree = json.loads(json.dumps(node))

    def bad(kind, msg, query, **extra):
        if len(viol) < 6:
            viol.append({"sig": dict(kind=kind, **extra), "scenario": "discovery", "input": {"tree": inp_tree, "query": query},
                         "expected": "reference resolver", "observed": msg, "msg": msg})
    with scratch.fresh("c19") as base:
        root = os.path.join(base, "t")
        try:
            lay = materialise(node, root)
        except Exception as e:  # noqa  (only init_project / open_job / init / update_cache are called there)
            os.chdir("/")
            bad("public-call-raises", f"building the tree raised {type(e).__name__}: {e}", [], exc=type(e).__name__)
            return {"cls": "broken", "viol": viol, "n": 1}
        queries = [d for d, _ in lay.dirs] + [os.path.join(d, "nope") for d, k in lay.dirs] + \
                  [os.path.join(d, "nope", "deeper") for d, k in lay.dirs if k == "job"]
        before = canon.snapshot(root)
        linked = {l[0] for l in lay.jobs if l[3]}  # symlinked job directories

        def through_link(r):
            return any(r == x or r.startswith(x + os.sep) for x in linked)
        for rel0 in queries:
            full0 = os.path.join(root, rel0) if rel0 else root
            forms = [("abs", full0, "/", rel0)]
            if os.path.exists(full0):
                forms.append(("cwd=root", os.path.relpath(full0, root), root, rel0))
                forms.append(("cwd=parent", os.path.relpath(full0, base), base, rel0))
                forms.append(("cwd=self", None, full0, rel0))
                forms.append(("cwd=self-dot", ".", full0, rel0))
                if not through_link(rel0):
                    parts = rel0.split(os.sep) if rel0 else []
                    for k in range(1, len(parts)):  # every directory between the tree root and the query as working directory
                        anc = os.sep.join(parts[:k])
                        forms.append((f"cwd=ancestor{k}", os.path.relpath(full0, os.path.join(root, anc)), os.path.join(root, anc), rel0))
                    if parts:  # the query spelled ".." from inside one of its sub-directories
                        for sub, _ in lay.dirs:
                            if os.path.dirname(sub) == rel0 and sub and not through_link(sub):
                                forms.append(("cwd=child-dotdot", "..", os.path.join(root, sub), rel0))
                                break
            for form, arg, cwd, rel in forms:
                full = os.path.join(root, rel) if rel else root
                exists = os.path.exists(full)
                os.chdir(cwd)
                # ---- get_project, search and no search
                for search in (True, False):
                    want = ref_get_project(lay, rel, search) if exists else None
                    if form.startswith("cwd=self") and any(l[0] == rel for l in lay.jobs if l[3]):
                        # os.getcwd() inside a symlinked job directory reports the link target
                        real = os.path.relpath(os.path.realpath(full), os.path.realpath(root))
                        want = ref_get_project(lay, real, search)
                    n += 1
                    try:
                        p = signac.get_project(arg, search=search) if arg is not None else signac.get_project(search=search)
                        got = os.path.relpath(os.path.realpath(p.path), os.path.realpath(root))
                        got = "" if got == "." else got
                    except LookupError:
                        got = None
                    except Exception as e:  # noqa
                        got = f"!{type(e).__name__}"
                    outcomes.add(("P", search, got is None))
                    want_real = None if want is None else os.path.relpath(os.path.realpath(os.path.join(root, want)), os.path.realpath(root))
                    want_real = "" if want_real == "." else want_real
                    if got != want_real:
                        bad("get-project-wrong", f"get_project({arg!r}, search={search}) from cwd {form}: {got!r}, expected {want_real!r} "
                            f"(query {rel!r})", [rel, form, search], search=search, expected_none=want is None)
                # ---- get_job
                wantj = ref_get_job(lay, rel) if exists else None
                n += 1
                try:
                    j = signac.get_job(arg) if arg is not None else signac.get_job()
                    gp = os.path.relpath(os.path.realpath(j.project.path), os.path.realpath(root))
                    gotj = (j.id, "" if gp == "." else gp)
                except LookupError:
                    gotj = None
                except Exception as e:  # noqa
                    gotj = (f"!{type(e).__name__}", str(e)[:80])
                outcomes.add(("J", gotj is None))
                wj = None
                if wantj is not None:
                    wp = os.path.relpath(os.path.realpath(os.path.join(root, wantj[1])), os.path.realpath(root))
                    wj = (wantj[0], "" if wp == "." else wp)
                if form.startswith("cwd=self") and wantj is not None and any(l[0] == rel for l in lay.jobs if l[3]):
                    # os.getcwd() inside a symlinked job directory reports the link target: the textual rule then
                    # resolves to the project that really holds the directory
                    real = os.path.relpath(os.path.realpath(full), os.path.realpath(root))
                    wr = ref_get_job(lay, real)
                    wj = (wr[0], wr[1]) if wr else None
                if gotj != wj:
                    bad("get-job-wrong", f"get_job({arg!r}) from cwd {form}: {gotj!r}, expected {wj!r} (query {rel!r})",
                        [rel, form], expected_none=wj is None)
        os.chdir("/")
        if canon.snapshot(root) != before:
            bad("discovery-writes", f"get_project/get_job changed the tree: {canon.snap_diff(before, canon.snapshot(root))[:4]}", [])
        # ---- a project created later, nearer to directories that were already queried, must be found from then on
        cand = [d for d, k in lay.dirs if k == "plain" and d and ref_get_project(lay, d) not in (None, d)
                and any(x != d and x.startswith(d + os.sep) for x, _ in lay.dirs)]
        if cand:
            newp = cand[0]
            os.chdir("/")
            try:
                signac.init_project(os.path.join(root, newp))
                lay.projects.append(newp)
                for rel, _ in lay.dirs:
                    if rel == newp or rel.startswith(newp + os.sep):
                        for search in (True, False):
                            want = ref_get_project(lay, rel, search)
                            n += 1
                            try:
                                got = os.path.relpath(os.path.realpath(signac.get_project(os.path.join(root, rel), search=search).path),
                                                      os.path.realpath(root))
                            except LookupError:
                                got = None
                            want_real = None if want is None else os.path.relpath(os.path.realpath(os.path.join(root, want)),
                                                                                  os.path.realpath(root))
                            if got != want_real and not any(l[0] == rel for l in lay.jobs if l[3]):
                                bad("get-project-wrong", f"after init_project({newp!r}) get_project({rel!r}, search={search}) gives "
                                    f"{got!r}, expected {want_real!r}", [rel, "after-new-project", search], search=search,
                                    expected_none=want is None, after_new_project=True)
            except Exception as e:  # noqa
                bad("public-call-raises", f"init_project in {newp!r}: {type(e).__name__}: {e}", [newp], exc=type(e).__name__)
            before = canon.snapshot(root)
        # ---- init_project on every existing project is a no-op returning the project
        for prel in lay.projects:
            full = os.path.join(root, prel) if prel else root
            for form, arg, cwd in (("abs", full, "/"), ("cwd=self", None, full)):
                os.chdir(cwd)
                n += 1
                try:
                    p = signac.init_project(arg) if arg is not None else signac.init_project()
                    ok = os.path.realpath(p.path) == os.path.realpath(full)
                    if not ok:
                        bad("init-project-returns-other-project", f"init_project({prel!r}) returned {p.path}", [prel, form])
                except Exception as e:  # noqa
                    bad("init-project-raises", f"init_project on the existing project {prel!r}: {type(e).__name__}: {e}", [prel, form])
                os.chdir("/")
                after = canon.snapshot(root)
                if after != before:
                    bad("init-project-modifies-existing-project", f"init_project({prel!r}) changed {canon.snap_diff(before, after)[:4]}",
                        [prel, form])
                    before = after
    return {"cls": f"projects{len(lay.projects)}/jobs{len(lay.jobs)}", "viol": viol, "n": n,
            "nt": json.dumps(node), "sample": {"tree": inp_tree, "queries": len(queries), "calls": n}}


def run(ctx):
    report = Report(LEVEL)
    tot = engine_i.run_items(ctx, trees(ctx.tier), evaluate, chunk=8)
    engine_i.fill_report(report, tot, rule=(
        "all trees of the grammar plain | project(side child, <=2 jobs) | job(child) | symlinked job up to the depth/node bound; "
        "every directory and three non-existent paths queried through get_project(search in {True, False}) and get_job, as "
        "absolute path and relative to cwd in {tree root, its parent, the directory itself}; init_project on every existing "
        "project between whole-tree snapshots. distinct_nontrivial = distinct trees containing a project"),
        extra={"bounds": {"depth": 3 if ctx.quick else 4, "max_nodes": 6 if ctx.quick else 7}}, floor_distinct=20)
    report.assumptions += ["id-like names occur only as workspace children", "nothing above the scratch tree is a signac project",
                           "resolution is textual (a symlinked job directory belongs to the project whose workspace holds the link), "
                           "except that os.getcwd() inside a link reports the target"]
    return report


def replay(payload, ctx):
    def tup(x):
        return tuple(tup(y) for y in x) if isinstance(x, list) else x
    return evaluate(tup(payload["input"]["tree"]))["viol"]
