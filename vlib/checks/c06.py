"""C06 — find_jobs returns exactly the jobs a per-job reference evaluator accepts.

Engine I.  (i) narrow seam `_SearchIndexer(corpus).find(filter)` on every 1-job and every
ordered 2-job corpus of the value universe (index-level conflation needs two jobs),
(ii) `Project.find_jobs` on designated on-disk corpora.  Oracles: vlib.refmodels.query
(per job), set algebra of $not/$and/$or on the implementation's own results, and
locality (membership in a pair corpus == membership in the 1-job corpus).
"""
import itertools
import json
import os

from .. import canon, engine_i, scratch
from .. import universe_q as U
from ..refmodels import query as Q
from ..runner import Report

PROPERTY = "C06"
LEVEL = "exploration"
_SALT = 0


# ------------------------------------------------------------------ classification of violations
def _values_at(jobs, ns, path):
    out = []
    for sp, doc in jobs:
        root = sp if ns == "sp" else (doc or {})
        out.append(Q.resolve(root, path))
    return out


def _hash_eq_conflated(vals):
    """pairs of scalar values that are == and hash-equal inside the typed index but of different type"""
    def key(v):
        if isinstance(v, bool):
            return ("b", v)
        if isinstance(v, int):
            return ("i", v)
        if isinstance(v, float):
            return ("f", v)
        return None
    pairs = set()
    for x, y in itertools.combinations([v for v in vals if key(v) is not None], 2):
        if type(x) is not type(y) and x == y:
            # the index stores floats with hash+1 (and CPython maps a hash of -1 to -2)
            hx = hash(x) + 1 if isinstance(x, float) else hash(x)
            hy = hash(y) + 1 if isinstance(y, float) else hash(y)
            hx, hy = (-2 if hx == -1 else hx), (-2 if hy == -1 else hy)
            if hx == hy:
                pairs.add(tuple(sorted((type(x).__name__, type(y).__name__))))
    return pairs


def classify(filter_, tree, jobs, observed_exc, where):
    atoms = list(Q.all_atoms(tree))
    if observed_exc is not None and "TypeError" in observed_exc:
        for a in atoms:
            if a[3] == "$near":
                if any(v is not Q.MISSING and (isinstance(v, bool) or not isinstance(v, (int, float)))
                       for v in _values_at(jobs, a[1], a[2])):
                    return {"kind": "near-raises-on-non-number"}
    for a in atoms:
        if a[3] == "$type":
            pairs = _hash_eq_conflated(_values_at(jobs, a[1], a[2]))
            if pairs:
                return {"kind": "typed-index-conflates-equal-values", "types": "/".join(sorted("+".join(p) for p in pairs))}
    if where == "disk":
        def doc_outside_not(node, inside):
            if node[0] in ("and", "or"):
                return any(doc_outside_not(n, inside) for n in node[1])
            if node[0] == "not":
                return doc_outside_not(node[1], True)
            return node[1] == "doc" and not inside
        def top_level_not_has_doc(node):
            # _root_keys only misses $not at a level it iterates: top level and inside $and/$or
            if node[0] in ("and", "or"):
                return any(top_level_not_has_doc(n) for n in node[1])
            if node[0] == "not":
                return any(a[1] == "doc" for a in Q.all_atoms(node[1]))
            return False
        if top_level_not_has_doc(tree) and not doc_outside_not(tree, False):
            return {"kind": "not-hides-doc-namespace"}
    ops = sorted({str(a[3]) for a in atoms})
    return {"kind": "find-differs-from-reference" if observed_exc is None else "find-raises",
            "ops": ",".join(ops), "where": where}


# ------------------------------------------------------------------ seam
def _doc_of(job):
    sp, doc = job
    d = {"sp": sp}
    if doc is not None:
        d["doc"] = doc
    return d


def _impl_find(filter_, docs):
    from signac._search_indexer import _SearchIndexer
    from signac.filterparse import _add_prefix, parse_filter

    f = dict(parse_filter(_add_prefix(filter_)))
    idx = _SearchIndexer((f"j{i}", d) for i, d in enumerate(docs))
    return idx.find(f)


def _try_find(filter_, docs):
    try:
        return set(_impl_find(filter_, docs)), None
    except Exception as e:  # noqa
        return None, f"{type(e).__name__}: {e}"


def eval_seam(item):
    kind, filter_, jobs, max_n, algebra = item
    tree = Q.atoms(filter_)
    ref = []
    for sp, doc in jobs:
        try:
            ref.append(Q.eval_tree(tree, sp, doc))
        except Q.IllTyped:
            ref.append(None)
    docs = [_doc_of(j) for j in jobs]
    viol, n, skipped, nviol = [], 0, 0, 0
    outcomes = set()
    single = {}
    for c in U.corpora(jobs, max_n=max_n):
        if any(ref[i] is None for i in c):
            skipped += 1
            continue
        cdocs = [docs[i] for i in c]
        got, exc = _try_find(filter_, cdocs)
        n += 1
        want = {f"j{k}" for k, i in enumerate(c) if ref[i]}
        if len(c) == 1:
            single[c[0]] = got
        bad = None
        if exc is not None or got != want:
            bad = ("reference", want)
        elif len(c) == 2 and all(single.get(i) is not None for i in c):
            local = {f"j{k}" for k, i in enumerate(c) if single[i]}
            if local != got:
                bad = ("locality", local)
        if bad is None and algebra and exc is None:
            tag, operands = algebra
            res = [_try_find(o, cdocs) for o in operands]
            n += len(operands)
            if all(r[1] is None for r in res):
                allids = {f"j{k}" for k in range(len(c))}
                if tag == "not":
                    exp = allids - res[0][0]
                elif tag == "and":
                    exp = set.intersection(*[r[0] for r in res])
                else:
                    exp = set.union(*[r[0] for r in res])
                if exp != got:
                    bad = ("algebra:" + tag, exp)
        outcomes.add((len(c), tuple(sorted(got)) if got is not None else "exc"))
        if bad is not None:
            nviol += 1
            if len(viol) < 3:
                cj = [jobs[i] for i in c]
                sig = classify(filter_, tree, cj, exc, "seam")
                viol.append({"sig": sig, "scenario": "seam/" + kind,
                             "input": {"filter": filter_, "corpus": cdocs, "where": "seam"},
                             "expected": {"oracle": bad[0], "ids": sorted(bad[1])},
                             "observed": sorted(got) if got is not None else exc,
                             "msg": f"_SearchIndexer.find({json.dumps(filter_)}) on {json.dumps(cdocs)} -> "
                                    f"{sorted(got) if got is not None else exc}, {bad[0]} oracle says {sorted(bad[1])}"})
    o = {"cls": f"{kind}:{len(outcomes)}", "viol": viol, "n": n, "nt": json.dumps(filter_, sort_keys=True),
         "sample": {"filter": filter_, "corpora": n, "skipped_ill_typed": skipped}}
    if n == 0:
        o["skip"] = "ill-typed ordering comparison on every corpus"
    o["extra_skipped"] = skipped
    return o


# ------------------------------------------------------------------ disk
def disk_corpora():
    yield []
    yield [({"a": 1}, None)]
    yield [({"a": i}, {"x": i % 3}) for i in range(6)]
    yield [({"a": 1}, {"x": 1}), ({"a": 1.0}, {"x": 2.5}), ({"a": True}, None), ({"a": "1"}, {"x": "s"}),
           ({"a": [1, 2]}, {"x": [1, 2]}), ({"a": None}, {"x": None})]
    yield [({"a": 0, "b": {"c": 1}}, None), ({"a": 1, "b": {"c": "x"}}, {"n": {"m": 1}}), ({"a": 2, "b": {"c": 2.5}}, {}),
           ({"a": 3}, {"n": {"m": 2}}), ({"a": 4, "b": {"c": {"d": 1}}}, {"n": 1}), ({"a": 5, "b": 1}, {"x": 1, "n": {"m": 1}})]
    yield [({"a": 0}, {"x": 1}), ({"a": 1}, {"x": 1.0}), ({"a": 2}, {"x": True}), ({"a": 3}, {"n": {"m": 1}}),
           ({"a": 4}, {}), ({"a": 5}, None)]
    yield [({"a": 1}, None), ({"b": {"c": 1}}, None), ({"z": 0}, {"x": 2.5}), ({"a": 1, "b": {"c": "x"}}, {"x": 1})]
    yield [({"a": -2}, None), ({"a": -2.0}, None), ({"a": 0}, None), ({"a": False}, None), ({"a": 0.0}, None)]
    yield [({"a": {"c": 1}}, None), ({"a": 1}, None), ({"b": 1}, None), ({"b": {"c": 1}}, {"x": {"c": 1}})]
    yield [({"a": 1}, None), ({"a": True}, None)]
    yield [({"a": True}, {"x": True}), ({"a": 1}, {"x": 1})]
    yield [({"a": 1}, {"x": 1}), ({"a": 1.0}, {"x": 1.0})]
    yield [({"a": "ab"}, None), ({"a": "b"}, None), ({"a": "1"}, None), ({"a": "a1"}, None), ({"a": ""}, None)]
    yield [({"a": [1, 2]}, None), ({"a": [1.0, 2]}, None), ({"a": [2, 1]}, None), ({"a": []}, None), ({"a": [[1, 2]]}, None)]
    yield [({"k": 0}, {"x": 1, "n": {"m": 1}}), ({"k": 1}, {"x": 2.5, "n": {"m": "1"}}), ({"k": 2}, {"x": "1", "n": 3})]
    # integers beyond 2**53 (not representable as doubles) next to their float neighbours
    yield [({"a": 9007199254740993}, {"x": 9007199254740993}), ({"a": 9007199254740992}, {"x": 9007199254740992}),
           ({"a": 9007199254740992.0}, None), ({"a": 9007199254740994}, None)]
    yield [({"spin": {"up": 1}, "docs": {"k": 1}}, None), ({"spin": {"up": "x"}}, {"x": 1}), ({"docs": {"k": 2}, "a": 1}, None),
           ({"spin": 1, "docs": 2}, None)]


_DISK_CACHE = {}


def _disk_project(ci, salt):
    """Build (once per worker) the on-disk project of designated corpus ci."""
    import signac

    key = (os.getpid(), ci, salt)
    if key in _DISK_CACHE:
        return _DISK_CACHE[key]
    corpus = list(disk_corpora())[ci]
    d = os.path.join(scratch.worker_dir(), f"c06-disk-{ci}")
    os.makedirs(d, exist_ok=True)
    p = signac.init_project(d)
    jobs = {}
    for sp, doc in corpus:
        sp = dict(sp, s=salt)
        job = p.open_job(sp).init()
        if doc is not None:
            job.doc.update(doc) if doc else job.doc.clear()
            if not doc:
                # an existing but empty document file
                with open(job.fn("signac_job_document.json"), "w") as f:
                    f.write("{}")
        jobs[canon.job_id(sp)] = (sp, doc)
        if job.id not in jobs:
            raise RuntimeError("id mismatch in harness (C01 territory)")
    _DISK_CACHE[key] = (d, jobs)
    return d, jobs


def eval_disk(item):
    import signac

    _, ci, salt, filters = item
    d, jobs = _disk_project(ci, salt)
    viol, n, skipped = [], 0, 0
    outcomes = set()
    joblist = list(jobs.values())
    for filter_ in filters:
        tree = Q.atoms(filter_)
        want = set()
        ill = False
        for jid, (sp, doc) in jobs.items():
            try:
                if Q.eval_tree(tree, sp, doc):
                    want.add(jid)
            except Q.IllTyped:
                ill = True
        if ill:
            skipped += 1
            continue
        n += 1
        exc = got = None
        try:
            p = signac.Project(d)
            given = json.loads(json.dumps(filter_))
            got = {j.id for j in p.find_jobs(given)}
            if given != filter_:
                exc = f"find_jobs changed the caller's filter object to {given}"
        except Exception as e:  # noqa
            exc = f"{type(e).__name__}: {e}"
        outcomes.add(tuple(sorted(got)) if got is not None else "exc")
        if exc is not None or got != want:
            if len(viol) < 3:
                sig = classify(filter_, tree, joblist, exc, "disk")
                viol.append({"sig": sig, "scenario": f"disk/corpus{ci}",
                             "input": {"filter": filter_, "corpus_index": ci, "salt": salt, "where": "disk",
                                       "corpus": [[sp, doc] for sp, doc in joblist]},
                             "expected": {"oracle": "reference", "ids": sorted(want)},
                             "observed": sorted(got) if got is not None else exc,
                             "msg": f"find_jobs({json.dumps(filter_)}) on disk corpus {ci} -> "
                                    f"{sorted(got) if got is not None else exc}, reference says {sorted(want)}"})
    o = {"cls": f"disk{ci}:{len(outcomes)}", "viol": viol, "n": n, "nt": f"disk{ci}:{len(outcomes)}:{n}",
         "sample": {"disk_corpus": ci, "filters": n, "distinct_result_sets": len(outcomes)}}
    if n == 0:
        o["skip"] = "ill-typed ordering comparison on every corpus"
    return o


SESSION_STEPS = ("as-built", "document-edited", "document-file-deleted", "document-created", "job-re-keyed", "job-removed",
                 "job-added")


def session_filters():
    fs = [U.spell(a) for a in U.R30 if a[0] in ("A", "X", "N")]
    fs += [{"$not": U.spell(("X", None, 1))}, {"$and": [U.spell(("A", "$exists", True)), U.spell(("X", "$exists", False))]},
           {"$or": [U.spell(("X", None, 1)), U.spell(("N", "$exists", True))]}, {}]
    return fs


def eval_session(item):
    """One long-lived Project object answers the same filters again after every change made behind its back (through
    other Project objects): every answer must describe the workspace as it is at the time of the query."""
    import shutil

    import signac

    _, ci, salt = item
    corpus = list(disk_corpora())[ci]
    viol, n = [], 0
    outcomes = set()
    base = os.path.join(scratch.worker_dir(), f"c06-session-{ci}")
    shutil.rmtree(base, ignore_errors=True)
    os.makedirs(base)
    try:
        signac.init_project(base)
        state = {}
        for sp, doc in corpus:
            sp = dict(sp, s=salt)
            j = signac.Project(base).open_job(sp).init()
            if doc is not None:
                j.doc.update(doc) if doc else j.doc.clear()
            state[j.id] = (sp, doc)
        session = signac.Project(base)
        filters = session_filters()
        pair_filters = [U.spell(("A", None, 1)), U.spell(("A", "$exists", True)), U.spell(("X", None, 1)), U.spell(("X", "$exists", False)),
                        U.spell(("N", None, 1)), {"$not": U.spell(("X", None, 1))}, {},
                        {"$or": [U.spell(("A", None, 2.5)), U.spell(("X", "$gte", 2.5))]}]
        pairs = {}
        for step in SESSION_STEPS:
            other = signac.Project(base)
            ids = sorted(state)
            if step == "document-edited" and ids:
                j = other.open_job(id=ids[0])
                new = dict(state[ids[0]][1] or {}, x=(1 if (state[ids[0]][1] or {}).get("x") != 1 else 2.5))
                j.doc.x = new["x"]
                state[ids[0]] = (state[ids[0]][0], new)
            elif step == "document-file-deleted":
                for i in ids:
                    if state[i][1] is not None:
                        fn = other.open_job(id=i).fn("signac_job_document.json")
                        if os.path.exists(fn):
                            os.remove(fn)
                        state[i] = (state[i][0], None)
                        break
            elif step == "document-created":
                for i in reversed(ids):
                    if state[i][1] is None:
                        other.open_job(id=i).doc.update({"x": 1, "n": {"m": 1}})
                        state[i] = (state[i][0], {"x": 1, "n": {"m": 1}})
                        break
            elif step == "job-re-keyed" and ids:
                i = ids[-1]
                sp, doc = state.pop(i)
                sp = dict(sp, a=2.5)
                if canon.job_id(sp) not in state:
                    j = other.open_job(id=i)
                    j.statepoint = sp
                    state[j.id] = (sp, doc)
                else:
                    state[i] = (state.get(i) or (dict(sp), doc))
            elif step == "job-removed" and ids:
                other.open_job(id=ids[0]).remove()
                state.pop(ids[0])
            elif step == "job-added":
                sp = {"a": 1, "s": salt, "added": True}
                j = other.open_job(sp).init()
                j.doc.x = 1
                state[j.id] = (sp, {"x": 1})
            def ask(sess, f, who):
                nonlocal n
                tree = Q.atoms(f)
                try:
                    want = {jid for jid, (sp, doc) in state.items() if Q.eval_tree(tree, sp, doc)}
                except Q.IllTyped:
                    return
                n += 1
                try:
                    got = {j.id for j in sess.find_jobs(f)}
                    exc = None
                except Exception as e:  # noqa
                    got, exc = None, f"{type(e).__name__}: {e}"
                outcomes.add((step, tuple(sorted(got)) if got is not None else "exc"))
                if got != want and len(viol) < 3:
                    viol.append({"sig": {"kind": "session-query-stale", "step": step, "raises": exc is not None},
                                 "scenario": f"session/corpus{ci}",
                                 "input": {"where": "session", "corpus_index": ci, "salt": salt, "filter": f, "step": step},
                                 "expected": sorted(want), "observed": sorted(got) if got is not None else exc,
                                 "msg": f"{who}, after step {step!r}: find_jobs({json.dumps(f)}) -> "
                                        f"{sorted(got) if got is not None else exc}, the workspace holds {sorted(want)}"})
            # (a) every pair (last query before the change, first query after it), each on its own Project object
            for (g, f), sess in pairs.items():
                ask(sess, pair_filters[f], f"a Project whose previous query was {json.dumps(pair_filters[g])}")
            pairs = {}
            for g in range(len(pair_filters)):
                for f in range(len(pair_filters)):
                    sess = signac.Project(base)
                    try:
                        list(sess.find_jobs(pair_filters[g]))
                    except Exception:  # noqa
                        pass
                    pairs[(g, f)] = sess
            # (b) one Project object that lives through all steps, asked everything in both orders
            for f in filters + filters[::-1]:
                ask(session, f, "long-lived Project")
    finally:
        shutil.rmtree(base, ignore_errors=True)
    return {"cls": f"session{ci}", "viol": viol, "n": n, "nt": f"session{ci}:{len(outcomes)}",
            "sample": {"session_corpus": ci, "queries": n, "steps": list(SESSION_STEPS)}}


def evaluate(item):
    if item[0] == "disk":
        return eval_disk(item)
    if item[0] == "session":
        return eval_session(item)
    return eval_seam(item)


# ------------------------------------------------------------------ universe
def all_filters(quick):
    for a in U.all_atoms():
        yield U.spell(a), {a[0]}, "atom"
    for f, ps, tag in U.depth2_filters():
        yield f, ps, tag
    for f, ps, tag in U.depth3_filters():
        yield f, ps, tag


def seam_available():
    """The in-memory seam (index over documents + filter normalisation) is an implementation detail; if a future signac
    no longer offers it under these names, only the on-disk part runs (and the evidence says so)."""
    try:
        from signac._search_indexer import _SearchIndexer  # noqa
        from signac.filterparse import _add_prefix, parse_filter  # noqa
        _impl_find({"a": 1}, [{"sp": {"a": 1}}])
        return True
    except (ImportError, AttributeError, TypeError):
        return False


def universe(tier, salt, seam=True):
    quick = tier == "quick"
    if not seam:
        yield from _disk_items(quick, salt)
        return
    # (i) seam, atoms: singles + ordered pairs over the full value universe of the atom's path
    for a in U.all_atoms():
        jobs = [U.make_job({a[0]: v}) for v in U.U_FULL]
        yield ("atom", U.spell(a), jobs, 2, None)
        if not quick:
            jobs3 = [U.make_job({a[0]: v}) for v in U.U_COLLIDE]
            yield ("atom3", U.spell(a), jobs3, 3, None)
    # depth 2
    for x in U.R30:
        jobs = list(U.jobs_over({x[0]}, U.U_RED))
        yield ("d2", {"$not": U.spell(x)}, jobs, 2, ("not", [U.spell(x)]))
    for x, y in itertools.product(U.R30, repeat=2):
        ps = {x[0], y[0]}
        jobs = list(U.jobs_over(ps, U.U_RED))
        sx, sy = U.spell(x), U.spell(y)
        yield ("d2", {"$and": [sx, sy]}, jobs, 2, ("and", [sx, sy]))
        yield ("d2", {"$or": [sx, sy]}, jobs, 2, ("or", [sx, sy]))
        m = U.merge(sx, sy)
        if m is not None:
            yield ("d2", m, jobs, 2, ("and", [sx, sy]))
        yield ("d2", U.merge({"$not": sx}, sy), jobs, 2, ("and", [{"$not": sx}, sy]))
    # depth 3
    for f, ps, tag in U.depth3_filters():
        jobs = list(U.jobs_over(ps, U.U_RED))
        yield ("d3", f, jobs, 1 if (quick and len(ps) == 3) else 2, None)
    yield from _disk_items(quick, salt)


def _disk_items(quick, salt):
    # (ii) disk
    ncorp = len(list(disk_corpora()))
    filters = [f for f, _, tag in all_filters(quick) if not (quick and tag in ("or+sibling", "and-or", "or-and", "not(or-not+sibling)"))]
    for ci in range(ncorp):
        for k in range(0, len(filters), 150):
            yield ("disk", ci, salt, filters[k:k + 150])
    if quick:
        # the three-operand structures on the corpora with six jobs (results larger than the restriction next to them)
        heavy = [f for f, _, tag in all_filters(quick) if tag in ("or+sibling", "and-or", "or-and")]
        for ci in (2, 4, 5):
            for k in range(0, len(heavy), 150):
                yield ("disk", ci, salt, heavy[k:k + 150])
    for ci in range(ncorp):
        yield ("session", ci, salt)


def run(ctx):
    report = Report(LEVEL)
    salt = ctx.seed
    seam = seam_available()
    tot = engine_i.run_items(ctx, universe(ctx.tier, salt, seam), evaluate, chunk=8)
    engine_i.fill_report(report, tot, rule=(
        "every atom (4 key paths x 13 operators x ~12 arguments) on every 1-job and ordered 2-job corpus of a "
        "16-value universe; every depth-2 combination of a 30-atom representative set and every depth-3 structure "
        "of an 8-atom set on all 1/2-job corpora over the product of the reduced universes of the paths the filter "
        "mentions; all filters through Project.find_jobs on 15 on-disk corpora. evaluations = implementation "
        "queries; distinct_nontrivial = distinct filters with at least one well-typed corpus"),
        extra={"bounds": {"seam_corpus_jobs": 2 if ctx.quick else 3, "filter_depth": 3,
                          "disk_corpora": len(list(disk_corpora()))},
               "alphabet_sizes": {"atoms": len(list(U.all_atoms())), "depth2": len(list(U.depth2_filters())),
                                  "depth3": len(list(U.depth3_filters())), "values": len(U.U_FULL)}},
        floor_distinct=1000 if seam else 100)
    report.coverage["seam_available"] = seam
    if not seam:
        report.assumptions.append("signac._search_indexer._SearchIndexer / filterparse._add_prefix / parse_filter are not available "
                                  "under these names: the in-memory seam part was skipped, only Project.find_jobs on disk ran")
    report.assumptions += [
        "equality is Python == (so 1 finds 1.0 and True), as documented for integer-valued floats",
        "(filter, corpus) pairs in which any ordering atom raises TypeError on any job are outside the domain",
        "keys named sp/doc, _id, $where, mapping-valued or empty-mapping operator arguments are outside the grammar",
    ]
    return report


def replay(payload, ctx):
    inp = payload["input"]
    f = inp["filter"]
    if inp.get("where") == "session":
        return eval_session(("session", inp["corpus_index"], inp.get("salt", 0)))["viol"]
    if inp.get("where") == "disk":
        o = eval_disk(("disk", inp["corpus_index"], inp.get("salt", 0), [f]))
        return o["viol"]
    jobs = [(d["sp"], d.get("doc")) for d in inp["corpus"]]
    tree = Q.atoms(f)
    want = set()
    for k, (sp, doc) in enumerate(jobs):
        if Q.eval_tree(tree, sp, doc):
            want.add(f"j{k}")
    got, exc = _try_find(f, inp["corpus"])
    if exc is None and got == want:
        return []
    return [{"sig": classify(f, tree, jobs, exc, "seam"), "expected": sorted(want),
             "observed": sorted(got) if got is not None else exc, "msg": "replayed"}]
