"""C11 — crashes and I/O errors in lifecycle operations never lose data or forge a job.

Engine S.  Scenarios: init (fresh / already valid / pre-existing corrupt file / directory only), state
point change by key set and by assignment (destination absent / initialised / empty directory), move,
clone, remove, clear, reset - each on a job carrying a document and nested files next to two bystanders.
  crash  process death before EVERY file-system call of the operation and torn prefixes of every write
  fault  EVERY call failed with EVERY applicable errno of {EIO, ENOSPC, EACCES, EXDEV, EROFS}
         (thorough: all double faults for re-key and clone)
Recovery oracle (fresh Project): bystanders byte-identical; the payload complete under exactly one id
directory (unless removing); every id-named directory validates against its id or is named by check();
no directory validates with a state point the job never had.  Fault oracle: an exception reaches the
caller and the recovery oracle holds, or no exception and the state equals the fault-free result.
"""
import itertools
import json
import os
import re

from .. import canon, engine_i, scratch
from ..engine_s import controller as C
from ..runner import Report

PROPERTY = "C11"
LEVEL = "fault_enumeration"
SPF = "signac_statepoint.json"
DOC = "signac_job_document.json"
OLD = {"a": 1, "k": "old"}
NEW_SET = {"a": 1, "k": "old", "b": 2}
NEW_ASSIGN = {"a": 9}
BY = [{"by": 1}, {"by": 2}]
IDRE = re.compile(r"^[0-9a-f]{32}$")


def fill(job, tag):
    job.doc["who"] = tag
    os.makedirs(job.fn("sub"), exist_ok=True)
    with open(job.fn("top.txt"), "w") as f:
        f.write("top " + tag)
    with open(job.fn("sub/data.bin"), "wb") as f:
        f.write(tag.encode() * 50)


def scenarios(root):
    import signac

    pp, qp = os.path.join(root, "P"), os.path.join(root, "Q")
    S = {}

    def base(tpl, with_job=True, dest=None, dest_sp=None, dest_proj="P"):
        os.makedirs(os.path.join(tpl, "P"))
        os.makedirs(os.path.join(tpl, "Q"))
        P = signac.init_project(os.path.join(tpl, "P"))
        Q = signac.init_project(os.path.join(tpl, "Q"))
        for i, sp in enumerate(BY):
            fill(P.open_job(sp).init(), f"bystander{i}")
        if with_job:
            fill(P.open_job(OLD).init(), "affected")
        if dest == "initialised":
            fill((P if dest_proj == "P" else Q).open_job(dest_sp).init(), "destination")
        elif dest == "empty_dir":
            os.makedirs(os.path.join(tpl, dest_proj, "workspace", canon.job_id(dest_sp)))

    def add(name, kind, setup, op, old=OLD, new=None, payload=True, dest=None):
        def body(ctx):
            proj = signac.Project(pp)
            job = proj.open_job(old) if kind != "init-by-id" else None
            C.mark("BEGIN")
            try:
                op(job)
            finally:
                C.mark("END")
                # the same session carries on: whatever the operation left in memory must not turn a handled error
                # into damage later (repair and cache refresh are exactly what a user runs after an error)
                for follow in (proj.repair, proj.update_cache):
                    try:
                        follow()
                    except Exception:
                        pass
        S[name] = dict(kind=kind, setup=setup, body=body, old=old, new=new, payload=payload, dest=dest)

    # init
    add("init-fresh", "init", lambda t: base(t, with_job=False), lambda j: j.init(), payload=False)
    add("init-already-valid", "init", lambda t: base(t), lambda j: j.init(), payload=True)

    def setup_corrupt(t):
        base(t)
        with open(os.path.join(t, "P", "workspace", canon.job_id(OLD), SPF), "w") as f:
            f.write('{"a": 1, "k": "ol')
    add("init-corrupt-file", "init-corrupt", setup_corrupt, lambda j: _swallow(j.init), payload=True)
    add("init-force-corrupt-file", "init", setup_corrupt, lambda j: j.init(force=True), payload=True)

    def setup_dironly(t):
        base(t, with_job=False)
        os.makedirs(os.path.join(t, "P", "workspace", canon.job_id(OLD)))
    add("init-directory-only", "init", setup_dironly, lambda j: j.init(), payload=False)
    add("doc-access-initialises", "init", lambda t: base(t, with_job=False), lambda j: j.doc.__setitem__("x", 1), payload=False)
    # re-key
    for dest in (None, "initialised", "empty_dir"):
        suffix = {None: "dest-absent", "initialised": "dest-initialised", "empty_dir": "dest-empty-dir"}[dest]
        add(f"rekey-set-{suffix}", "rekey", (lambda d: lambda t: base(t, dest=d, dest_sp=NEW_SET))(dest),
            lambda j: j.sp.__setitem__("b", 2) if True else None, new=NEW_SET, dest=dest)
        add(f"rekey-assign-{suffix}", "rekey", (lambda d: lambda t: base(t, dest=d, dest_sp=NEW_ASSIGN))(dest),
            lambda j: setattr(j, "statepoint", dict(NEW_ASSIGN)), new=NEW_ASSIGN, dest=dest)
    add("rekey-update-statepoint", "rekey", lambda t: base(t), lambda j: j.update_statepoint({"b": 2}), new=NEW_SET)
    # several keys at once: one state point change, not a chain of them (no intermediate state point may ever validate)
    add("rekey-update-two-keys", "rekey", lambda t: base(t), lambda j: j.update_statepoint({"b": 2, "c": 3}),
        new=dict(NEW_SET, c=3))

    def setup_cached(t):
        base(t)
        signac.Project(os.path.join(t, "P")).update_cache()  # every job is listed in the persistent cache file
    add("rekey-set-persistent-cache", "rekey", setup_cached, lambda j: j.sp.__setitem__("b", 2), new=NEW_SET)
    # move / clone
    for dest in (None, "initialised", "empty_dir"):
        suffix = {None: "dest-absent", "initialised": "dest-initialised", "empty_dir": "dest-empty-dir"}[dest]
        add(f"move-{suffix}", "move", (lambda d: lambda t: base(t, dest=d, dest_sp=OLD, dest_proj="Q"))(dest),
            lambda j: j.move(signac.Project(qp)), new=OLD, dest=dest)
        add(f"clone-{suffix}", "clone", (lambda d: lambda t: base(t, dest=d, dest_sp=OLD, dest_proj="Q"))(dest),
            lambda j: signac.Project(qp).clone(j), new=OLD, dest=dest)
    # removal family
    def setup_with_link(t):
        # the affected job also holds a symbolic link to a file of a bystander: removing the job's content must never
        # reach through the link
        base(t)
        os.symlink(os.path.join("..", canon.job_id(BY[0]), "top.txt"),
                   os.path.join(t, "P", "workspace", canon.job_id(OLD), "link_to_bystander.txt"))
    add("remove", "remove", setup_with_link, lambda j: j.remove())
    # ... through a handle that has already used the job's document
    add("remove-after-doc-access", "remove", setup_with_link, lambda j: (j.doc.get("who"), j.remove()))
    add("clear", "clear", setup_with_link, lambda j: j.clear())
    add("reset", "clear", setup_with_link, lambda j: j.reset())
    return S


def _swallow(fn):
    """init() on a corrupt file is expected to raise JobsCorruptedError: that is the fault-free behaviour."""
    from signac.errors import JobsCorruptedError
    try:
        fn()
    except JobsCorruptedError:
        pass


QUICK = ["init-fresh", "init-corrupt-file", "doc-access-initialises", "rekey-set-dest-absent", "rekey-assign-dest-absent",
         "rekey-assign-dest-initialised", "rekey-assign-dest-empty-dir", "move-dest-absent", "move-dest-initialised",
         "clone-dest-absent", "clone-dest-initialised", "remove", "clear", "reset", "rekey-update-two-keys",
         "rekey-set-persistent-cache", "remove-after-doc-access"]


def applicable(op):
    errs = ["EIO"]
    if op in C.MUTATING:
        errs += ["EACCES", "EROFS"]
    if op in ("open_w", "write", "mkdir", "rename", "symlink", "sendfile"):
        errs.append("ENOSPC")
    if op in ("rename", "link"):
        errs.append("EXDEV")
    return errs


# ------------------------------------------------------------------ recovery oracle
def job_dirs(proj):
    ws = os.path.join(proj, "workspace")
    try:
        return sorted(d for d in os.listdir(ws) if IDRE.match(d) and os.path.isdir(os.path.join(ws, d)))
    except OSError:
        return []


def validates(proj, d):
    try:
        with open(os.path.join(proj, "workspace", d, SPF), "rb") as f:
            val = json.loads(f.read().decode())
        return canon.job_id(val) == d, val
    except Exception:
        return False, None


def payload_of(tree, prefix):
    """{relpath: entry} of the payload files (everything but the state point file and temp/backup names) below prefix."""
    out = {}
    for r, k, h in tree:
        if r.startswith(prefix + "/"):
            rel = r[len(prefix) + 1:]
            if rel == SPF or rel.endswith("~") or os.path.basename(rel).startswith("._"):
                continue
            out[rel] = (k, h)
    return out


def recover_and_judge(root, scn, pre_tree, what):
    import signac
    from signac.errors import JobsCorruptedError

    out = []
    tree = C.tree_state(root)
    old_id = canon.job_id(scn["old"])
    allowed_sps = [scn["old"]] + ([scn["new"]] if scn["new"] else []) + BY
    if scn["dest"] == "initialised":
        allowed_sps.append(scn["new"])
    for tag in ("P", "Q"):
        proj = os.path.join(root, tag)
        dirs = job_dirs(proj)
        try:
            signac.Project(proj).check()
            named = set()
        except JobsCorruptedError as e:
            named = set(e.job_ids)
        except Exception as e:  # noqa
            out.append(("check-raises-other", f"{what}: check() of {tag} raised {type(e).__name__}: {e}", {}))
            named = set(dirs)
        for d in dirs:
            ok, val = validates(proj, d)
            if not ok and d not in named:
                out.append(("invalid-directory-not-reported", f"{what}: {tag}/workspace/{d} does not validate and check() "
                            f"does not name it (named: {sorted(named)})", {}))
            if ok and not any(canon.typed_eq(val, a) for a in allowed_sps):
                out.append(("forged-job", f"{what}: {tag}/workspace/{d} validates with state point {val!r} which the job "
                            f"never had", {}))
            if ok and d in named:
                out.append(("check-false-alarm", f"{what}: {d} validates but check() names it", {}))
    # bystanders byte-identical
    pre = {r: (k, h) for r, k, h in pre_tree}
    now = {r: (k, h) for r, k, h in tree}
    for sp in BY:
        pref = "P/workspace/" + canon.job_id(sp)
        a = {r: v for r, v in pre.items() if r == pref or r.startswith(pref + "/")}
        b = {r: v for r, v in now.items() if r == pref or r.startswith(pref + "/")}
        if a != b:
            out.append(("bystander-changed", f"{what}: bystander {sp} differs: {canon.snap_diff(a, b)[:4]}", {}))
    if scn["dest"] == "initialised":
        proj = "Q" if scn["kind"] in ("move", "clone") else "P"
        pref = f"{proj}/workspace/" + canon.job_id(scn["new"])
        a = {r: v for r, v in pre.items() if r.startswith(pref + "/") and not r.endswith("~")}
        b = {r: v for r, v in now.items() if r.startswith(pref + "/") and not r.endswith("~")}
        if a != b:
            out.append(("destination-job-changed", f"{what}: the initialised destination job differs: {canon.snap_diff(a, b)[:4]}", {}))
    # payload of the affected job
    if scn["payload"] and scn["kind"] not in ("remove", "clear"):
        want = payload_of(pre_tree, "P/workspace/" + old_id)
        holders = []
        for tag in ("P", "Q"):
            ws = os.path.join(root, tag, "workspace")
            for d in (os.listdir(ws) if os.path.isdir(ws) else []):
                got = payload_of(tree, f"{tag}/workspace/{d}")
                if want and all(got.get(k) == v for k, v in want.items()):
                    holders.append(f"{tag}/{d}")
        if scn["kind"] == "clone":
            if f"P/{old_id}" not in holders:
                out.append(("payload-lost", f"{what}: the clone source lost data (complete copies: {holders})", {}))
        elif len(holders) != 1:
            out.append(("payload-lost" if not holders else "payload-duplicated",
                        f"{what}: the job's data files are complete under {holders} (expected exactly one directory)", {}))
    return out


def eval_item(item):
    name, part = item
    viol = []
    n = 0
    nt = set()
    with scratch.fresh("c11") as base:
        root = os.path.join(base, "run")
        tpl = os.path.join(base, "tpl")
        scn = scenarios(root)[name]
        scn["setup"](tpl)

        def bad(kind, msg, inp, **extra):
            if len(viol) < 6:
                viol.append({"sig": dict(kind=kind, scenario_kind=scn["kind"], **extra), "scenario": name,
                             "input": dict(scenario=name, part=part, **inp), "expected": "recovery oracle", "observed": msg,
                             "msg": msg})
        trace, outcome, final_tree, pre_tree = C.record(tpl, root, scn["body"])
        sig = [list(x) for x in C.signature(trace)]
        expected_exc = None
        if outcome[0] != "ok":
            # some scenarios fail by design (destination exists): that is their fault-free outcome
            expected_exc = outcome[1]
            if not (scn["dest"] == "initialised" and expected_exc == "DestinationExistsError") and \
                    not (scn["dest"] == "empty_dir" and scn["kind"] == "clone" and expected_exc == "DestinationExistsError"):
                bad("fault-free-run-fails", f"operation failed without any fault: {outcome[:3]}", {})
                return {"cls": name, "viol": viol, "n": 1}
        for k, m, e in recover_and_judge(root, scn, pre_tree, "fault-free run"):
            bad(k, m, {"decisions": {}}, **e)
        steps = [i for i, r in enumerate(trace) if r["in_window"]]
        mut = [i for i in steps if trace[i]["op"] in C.MUTATING]
        if part == "crash":
            for i in mut:
                decisions = [("C", {"crash_before": i})]
                if trace[i]["op"] in ("write", "sendfile") and trace[i]["nbytes"] > 1:
                    L = trace[i]["nbytes"]
                    for t in sorted({1, L // 2, L - 1}):
                        decisions.append((f"T {t}", {"torn": [i, t]}))
                for dec, inp in decisions:
                    n += 1
                    C.run_with(tpl, root, scn["body"], trace, {i: dec})
                    nt.add((trace[i]["op"], dec[0]))
                    for k, m, e in recover_and_judge(root, scn, pre_tree, f"process death at step {i} "
                                                     f"({trace[i]['op']} {trace[i]['path']} {trace[i]['path2']}, {dec})"):
                        bad(k, m, dict(inp, trace=sig), step_op=trace[i]["op"], **e)
        elif part in ("fault", "fault2"):
            sites = [i for i in steps if trace[i]["op"] in C.MUTATING or trace[i]["op"] in ("open_r", "open_d", "opendir")]
            plans = []
            if part == "fault":
                for i in sites:
                    for en in applicable(trace[i]["op"]):
                        plans.append({i: en})
            else:
                for i, j in itertools.combinations(sites, 2):
                    for en in ("EIO", "EACCES"):
                        if en in applicable(trace[i]["op"]) and en in applicable(trace[j]["op"]):
                            plans.append({i: en, j: en})
            for plan in plans:
                n += 1
                decisions = {i: f"F {C.ERRNOS[en]}" for i, en in plan.items()}
                try:
                    tr, out, tree, _ = C.run_with(tpl, root, scn["body"], trace, decisions)
                except C.HarnessError:
                    raise
                first = min(plan)
                desc = ", ".join(f"{en} at step {i} ({trace[i]['op']} {trace[i]['path']})" for i, en in sorted(plan.items()))
                nt.add((trace[first]["op"], plan[first], out[0] if out[0] != "exc" else out[1]))
                inp = {"fail": [[i, en] for i, en in sorted(plan.items())], "trace": sig}
                raised = out[0] == "exc" and (expected_exc is None or out[1] != expected_exc or True)
                if out[0] == "died":
                    bad("process-died-on-handled-error", f"{desc}: actor died with {out}", inp)
                    continue
                if out[0] == "exc":
                    for k, m, e in recover_and_judge(root, scn, pre_tree, f"{desc} -> {out[1]}"):
                        bad(k, m, inp, step_op=trace[first]["op"], errno=plan[first], after_exception=True, **e)
                    # the failed operation was rolled back completely: then repair() / update_cache() run afterwards in
                    # the same session have nothing to do and must leave every job directory as it is
                    end_tree = getattr(C.run_with, "last_end_tree", None)

                    def _jobs(t):
                        return {r: (k, h) for r, k, h in t if "/workspace/" in r and not r.endswith("~")
                                and not os.path.basename(r).startswith("._")}
                    if end_tree is not None and _jobs(end_tree) == _jobs(pre_tree) and _jobs(tree) != _jobs(pre_tree):
                        d = canon.snap_diff(_jobs(pre_tree), _jobs(tree))
                        bad("later-repair-damages-rolled-back-job", f"{desc} -> {out[1]}: the operation was rolled back, but "
                            f"repair()/update_cache() in the same session then changed {d[:4]}", inp,
                            step_op=trace[first]["op"], errno=plan[first])
                else:
                    # (the gzip header of the cache file written by the follow-up carries a timestamp)
                    def _nc(t):
                        return {r: (k, h) for r, k, h in t if not r.endswith("statepoint_cache.json.gz")}
                    if _nc(tree) != _nc(final_tree):
                        d = canon.snap_diff(_nc(final_tree), _nc(tree))
                        # an operation that returns normally although a call failed must have had its full effect
                        bad("silent-partial-success", f"{desc}: no exception reached the caller but the result differs from "
                            f"the fault-free result: {d[:5]}", inp, step_op=trace[first]["op"], errno=plan[first],
                            only_temp_files=all(x[0].endswith("~") or os.path.basename(x[0]).startswith("._") for x in d))
    return {"cls": name, "viol": viol, "n": n, "nt": sorted(map(str, nt)), "nt_many": True,
            "sample": {"scenario": name, "part": part, "executions": n, "window_calls": len(steps)}}


def evaluate(item):
    return eval_item(item)


def universe(tier):
    names = QUICK if tier == "quick" else sorted(scenarios("/nonexistent"))
    for name in names:
        for part in ("crash", "fault"):
            yield (name, part)
    if tier != "quick":
        for name in names:
            if name.startswith("rekey") or name.startswith("clone"):
                yield (name, "fault2")


def run(ctx):
    C.ensure_preloaded()
    report = Report(LEVEL)
    items = list(universe(ctx.tier))
    tot = engine_i.run_items(ctx, iter(items), evaluate, chunk=1)
    engine_i.fill_report(report, tot, rule=(
        "per scenario: record the operation's file-system trace through the libc shim; process death before every mutating "
        "call of the operation window and torn prefixes {1, L/2, L-1} of every write; every mutating call and every open-for-"
        "reading failed with every applicable errno of {EIO, ENOSPC, EACCES, EXDEV, EROFS}; thorough: all double faults "
        "(EIO/EACCES) for re-key and clone. distinct_nontrivial = distinct (call kind, decision/errno, outcome class)"),
        extra={"bounds": {"scenarios": len({i[0] for i in items}), "double_faults": "re-key and clone scenarios" if not ctx.quick else "none"}},
        floor_distinct=10)
    report.assumptions += ["process-crash semantics (page cache survives; no power-loss reordering)",
                           "ENOENT is not injected (signac reads it as 'not there' by design)",
                           "stray temporary files after a crash or a failed call are not judged here"]
    return report


def replay(payload, ctx):
    C.ensure_preloaded()
    inp = payload["input"]
    return eval_item((inp["scenario"], inp["part"]))["viol"]
