"""C04 — re-keying, moving and cloning carry all data and never clobber another job.

Engine I: the full product (old state point, edit | move | clone, destination state, payload,
handle provenance).  Oracle: byte snapshots of every job directory before/after, ids listed
by fresh Project objects, exception classes, and what every live handle reports.
"""
import copy
import itertools
import json
import os
import pickle
import shutil

from .. import canon, engine_i, scratch
from ..runner import Report

PROPERTY = "C04"
LEVEL = "model_checking"
SPF = "signac_statepoint.json"

OLD = [{"a": 1}, {"a": 1, "b": 2}, {"a": 1, "c": {"d": 1}}, {"a": 1, "l": [1, 2]},
       {"a": 1, "n": None, "z": 0, "f": False, "e": "", "el": [], "em": {}}]
EDITS = [
    ("set", "b", 2), ("set", "a", 1), ("set", "a", 1.0), ("set", "a", True), ("set", "a", 7), ("setattr", "b", 3),
    ("del", "b"), ("del", "a"), ("del", "zz"),
    ("nested_set", "c", "d", 2), ("nested_new", "c", {"d": 1}), ("nested_new", "e", {"f": {"g": 1}}),
    ("list_item", "l", 0, 9), ("list_append", "l", 3),
    ("assign", {"a": 2}), ("assign", {"a": 1.0}), ("assign", "same"), ("assign", {"a": 1, "b": 2}),
    ("update", {"b": 2}, False), ("update", {"a": 5}, False), ("update", {"a": 5}, True), ("update", {"a": 1.0}, False),
    ("update", {"a": 1, "z": 0}, False), ("update", {"c": {"d": 9}}, True),
    ("update", {"n": 5}, False), ("update", {"z": 7}, False), ("update", {"f": True}, False), ("update", {"e": "x"}, False),
    ("update", {"el": [1]}, False), ("update", {"em": {"k": 1}}, False), ("update", {"n": None}, False), ("update", {"n": 5}, True),
    ("set", "n", 0), ("del", "n"),
    # several keys at once, the conflicting key in every position (mapping order is the caller's)
    ("update", {"new1": 1, "a": 5}, False), ("update", {"a": 5, "new1": 1}, False), ("update", {"new1": 1, "new2": 2, "a": 5}, False),
    ("update", {"new1": 1, "new2": 2}, False), ("update", {"new1": 1, "a": 1}, False), ("update", {"new1": 1, "a": 5}, True),
    ("move",), ("clone",),
]
DESTS = ["absent", "initialised", "handle_only", "empty_dir", "file", "no_workspace"]
PAYLOADS = ["nothing", "doc", "files+doc"]
PROVENANCE = ["sp", "id", "copy-edit-original", "copy-edit-copy", "deepcopy", "pickle"]


def model_edit(old, edit):
    """-> (new state point | None, expected exception name | None).  None/None = edit not applicable."""
    new = json.loads(json.dumps(old))
    k = edit[0]
    if k in ("set", "setattr"):
        new[edit[1]] = edit[2]
    elif k == "del":
        if edit[1] not in new:
            return None, "KeyError"
        del new[edit[1]]
    elif k == "nested_set":
        if not isinstance(new.get(edit[1]), dict):
            return None, None
        new[edit[1]][edit[2]] = edit[3]
    elif k == "nested_new":
        if edit[1] in new:
            return None, None
        new[edit[1]] = edit[2]
    elif k == "list_item":
        if not isinstance(new.get(edit[1]), list):
            return None, None
        new[edit[1]][edit[2]] = edit[3]
    elif k == "list_append":
        if not isinstance(new.get(edit[1]), list):
            return None, None
        new[edit[1]].append(edit[2])
    elif k == "assign":
        new = new if edit[1] == "same" else json.loads(json.dumps(edit[1]))
    elif k == "update":
        upd, overwrite = edit[1], edit[2]
        if not overwrite and any(kk in new and new[kk] != v for kk, v in upd.items()):
            return None, "KeyError"
        new.update(json.loads(json.dumps(upd)))
    return new, None


def do_edit(job, edit):
    k = edit[0]
    if k == "set":
        job.sp[edit[1]] = edit[2]
    elif k == "setattr":
        setattr(job.sp, edit[1], edit[2])
    elif k == "del":
        del job.sp[edit[1]]
    elif k == "nested_set":
        getattr(job.sp, edit[1])[edit[2]] = edit[3]
    elif k == "nested_new":
        job.sp[edit[1]] = edit[2]
    elif k == "list_item":
        job.sp[edit[1]][edit[2]] = edit[3]
    elif k == "list_append":
        job.sp[edit[1]].append(edit[2])
    elif k == "assign":
        job.statepoint = job.statepoint() if edit[1] == "same" else json.loads(json.dumps(edit[1]))
    elif k == "update":
        job.update_statepoint(json.loads(json.dumps(edit[1])), overwrite=edit[2])
    else:
        raise ValueError(edit)


def _fill(job, payload, tag):
    if payload in ("doc", "files+doc"):
        job.doc["who"] = tag
        job.doc["nested"] = {"k": [1, 2.5, None]}
    if payload == "files+doc":
        os.makedirs(job.fn("sub/deep"), exist_ok=True)
        with open(job.fn("top.txt"), "w") as f:
            f.write("top of " + tag)
        with open(job.fn("sub/deep/data.bin"), "wb") as f:
            f.write(tag.encode() * 7)


def _payload_snapshot(jobdir):
    s = canon.snapshot(jobdir)
    s.pop(SPF, None)
    return s


def evaluate(item):
    import signac
    from signac.errors import DestinationExistsError

    old_i, edit, dest, payload, prov = item
    edit = tuple(edit)
    old = OLD[old_i]
    viol = []
    inp = {"old": old, "edit": list(edit), "destination": dest, "payload": payload, "provenance": prov}
    op = edit[0]

    def bad(kind, msg, expected=None, observed=None, **extra):
        viol.append({"sig": dict(kind=kind, **extra), "scenario": op, "input": inp,
                     "expected": expected, "observed": observed, "msg": msg})

    if op in ("move", "clone"):
        new, exp_exc = json.loads(json.dumps(old)), None
    else:
        new, exp_exc = model_edit(old, edit)
        if new is None and exp_exc is None:
            return {"skip": "edit not applicable to this state point", "viol": [], "n": 0}
    old_id = canon.job_id(old)
    new_id = canon.job_id(new) if new is not None else None
    cross = op in ("move", "clone")

    with scratch.fresh("c04") as root:
        pp, qp = os.path.join(root, "P"), os.path.join(root, "Q")
        P, Qp = signac.init_project(pp), signac.init_project(qp)
        src = P.open_job(old).init()
        _fill(src, payload, "source")
        for i, sp in enumerate(({"by": 1}, {"by": 2, "a": 1})):
            b = P.open_job(sp).init()
            _fill(b, "files+doc", f"bystander{i}")
        dest_proj_path = qp if cross else pp
        dest_proj = Qp if cross else P
        dest_is_job = False
        if new_id is not None and (cross or new_id != old_id):
            if dest == "initialised":
                dj = dest_proj.open_job(new).init()
                _fill(dj, "files+doc", "destination")
                dest_is_job = True
            elif dest == "handle_only":
                dest_proj.open_job(new)
            elif dest == "empty_dir":
                os.makedirs(os.path.join(dest_proj_path, "workspace", new_id))
            elif dest == "no_workspace":
                if not cross:
                    return {"skip": "only move / clone have another project as destination", "viol": [], "n": 0}
            elif dest == "file":
                # the destination id is occupied by something that is not a directory: the operation cannot succeed
                os.makedirs(os.path.join(dest_proj_path, "workspace"), exist_ok=True)
                with open(os.path.join(dest_proj_path, "workspace", new_id), "w") as f:
                    f.write("not a job")
        elif dest != "absent":
            return {"skip": "destination variants need a destination id different from the source", "viol": [], "n": 0}

        # handle provenance
        handles = {}
        if prov == "sp":
            actor = signac.Project(pp).open_job(json.loads(json.dumps(old)))
        elif prov == "id":
            actor = signac.Project(pp).open_job(id=old_id)
        elif prov in ("copy-edit-original", "copy-edit-copy"):
            orig = signac.Project(pp).open_job(json.loads(json.dumps(old)))
            cp = copy.copy(orig)
            actor, follower = (orig, cp) if prov == "copy-edit-original" else (cp, orig)
            handles["follower"] = follower
        elif prov == "deepcopy":
            actor = copy.deepcopy(signac.Project(pp).open_job(json.loads(json.dumps(old))))
        else:
            base = signac.Project(pp).open_job(json.loads(json.dumps(old)))
            base.init()
            try:
                actor = pickle.loads(pickle.dumps(base))
            except BaseException as e:  # noqa
                bad("pickle-raises", f"pickle round trip of an initialised handle raised {type(e).__name__}: {e}",
                    exc=type(e).__name__, handle_has_live_shallow_copy=False)
                return {"cls": "pickle-raises", "viol": viol, "n": 1}
        handles["actor"] = actor

        before_p, before_q = canon.snapshot(pp), canon.snapshot(qp)
        src_payload = _payload_snapshot(os.path.join(pp, "workspace", old_id))

        exc = None
        result = None
        try:
            qobj = signac.Project(qp)
            if dest == "no_workspace":
                # the destination's still empty workspace directory disappears while its Project object is alive:
                # signac creates workspaces on demand, the operation works as onto any other empty project
                os.rmdir(os.path.join(qp, "workspace"))
            if op == "move":
                actor.move(qobj)
            elif op == "clone":
                result = qobj.clone(actor)
            else:
                do_edit(actor, edit)
        except BaseException as e:  # noqa
            exc = e
        after_p, after_q = canon.snapshot(pp), canon.snapshot(qp)
        # cache files are not job data
        for s in (before_p, before_q, after_p, after_q):
            for k in [k for k in s if k.startswith(".signac")]:
                s.pop(k)
        outcome = type(exc).__name__ if exc is not None else "ok"

        def unchanged(what):
            d = canon.snap_diff(before_p, after_p) + canon.snap_diff(before_q, after_q)
            if d:
                bad("failed-operation-changed-disk", f"{what}: disk changed: {d[:6]}", [], [list(map(str, x)) for x in d[:6]],
                    outcome=outcome, leftover_backup=any(x[0].endswith("~") for x in d))

        typed_overlap = (op in ("assign", "update") and exp_exc is None and new is not None and any(
            k in old and old[k] == new[k] and not canon.typed_eq(old[k], new[k]) for k in new))
        if typed_overlap and exc is None and actor.id != new_id:
            # whole assignment in which some value only changes its JSON type (1 -> 1.0): synced_collections keeps
            # the old value because it compares equal, so the job ends up under another id than the one assigned
            bad("state-point-assignment-ignores-type-only-difference",
                f"{edit} on {old}: handle reports id {actor.id} / {actor.statepoint()!r}, assigned {new!r}",
                new, canon.plain(actor.statepoint()))
        elif exp_exc is not None:
            if exc is None or type(exc).__name__ != exp_exc:
                bad("expected-exception-missing", f"{edit} on {old}: expected {exp_exc}, got {outcome}: {exc}", exp_exc, outcome)
            unchanged(f"{edit} must have no effect")
        elif not cross and new_id == old_id:
            if exc is not None:
                bad("noop-edit-raises", f"{edit} on {old} (no change of the JSON value) raised {outcome}: {exc}", "ok", outcome)
            unchanged("an edit that does not change the state point")
        elif dest_is_job:
            if not isinstance(exc, DestinationExistsError):
                bad("destination-exists-not-raised", f"{op} onto an initialised job: outcome {outcome}: {exc}",
                    "DestinationExistsError", outcome)
            unchanged("DestinationExistsError")
        elif op == "clone" and dest == "empty_dir" and isinstance(exc, DestinationExistsError):
            unchanged("clone refused onto an existing empty directory")
        elif dest == "file":
            if exc is None:
                bad("occupied-destination-not-refused", f"{op} onto an id occupied by a regular file returned normally", "an exception", "ok")
            unchanged("an operation refused because the destination id is occupied by a file")
            try:
                signac.Project(pp).open_job(id=old_id).statepoint()
            except Exception as e:  # noqa
                bad("source-unreadable-after-refused-operation", f"after the refused {op} the source job cannot be opened: "
                    f"{type(e).__name__}: {e}")
        elif op in ("move", "clone") and False:
            pass
        else:
            if exc is not None:
                bad("operation-raises", f"{edit} on {old} ({dest}, {payload}, {prov}) raised {outcome}: {exc}", "ok", outcome,
                    exc=outcome)
            else:
                # where must the data be now?
                dst_dir = os.path.join(dest_proj_path, "workspace", new_id)
                src_dir = os.path.join(pp, "workspace", old_id)
                if not os.path.isdir(dst_dir):
                    values_equal = (not cross) and old == new
                    bad("state-point-change-has-no-effect" if os.path.isdir(src_dir) else "job-lost",
                        f"{edit} on {old}: no directory for the new id {new_id}; handle reports id {actor.id}",
                        new_id, sorted(os.listdir(os.path.join(dest_proj_path, "workspace"))),
                        values_python_equal=bool(values_equal))
                else:
                    got_payload = _payload_snapshot(dst_dir)
                    if got_payload != src_payload:
                        bad("payload-not-carried", f"{op}: payload differs after the operation: "
                            f"{canon.snap_diff(src_payload, got_payload)[:5]}", "byte-identical payload", None)
                    try:
                        with open(os.path.join(dst_dir, SPF), "rb") as f:
                            parsed = json.loads(f.read().decode())
                    except Exception as e:  # noqa
                        parsed = repr(e)
                    if not canon.typed_eq(parsed, new):
                        bad("statepoint-file-wrong", f"state point file holds {parsed!r}, expected {new!r}", new, parsed)
                    if op == "clone":
                        if _payload_snapshot(src_dir) != src_payload or canon.snap_diff(before_p, after_p):
                            bad("clone-touched-source", "source project changed by clone", None,
                                [list(map(str, x)) for x in canon.snap_diff(before_p, after_p)[:5]])
                    else:
                        if os.path.lexists(src_dir):
                            bad("old-id-still-present", f"directory of the old id {old_id} still exists", None, old_id)
                    # every other job byte-identical, nothing else created
                    def strip(s, ids):
                        return {k: v for k, v in s.items() if not any(k == "workspace/" + i or k.startswith("workspace/" + i + "/") for i in ids)}
                    dp = canon.snap_diff(strip(before_p, {old_id, new_id}), strip(after_p, {old_id, new_id}))
                    dq = canon.snap_diff(strip(before_q, {new_id}), strip(after_q, {new_id}))
                    if dp or dq:
                        bad("other-data-changed", f"unrelated paths changed: {(dp + dq)[:6]}", [], [list(map(str, x)) for x in (dp + dq)[:6]],
                            leftover_backup=any(x[0].endswith("~") for x in dp + dq))
                    # listing through fresh projects
                    ids_p = sorted(j.id for j in signac.Project(pp))
                    ids_q = sorted(j.id for j in signac.Project(qp))
                    want_p = {canon.job_id({"by": 1}), canon.job_id({"by": 2, "a": 1})}
                    want_q = set()
                    if op == "clone":
                        want_p.add(old_id)
                        want_q.add(new_id)
                    elif op == "move":
                        want_q.add(new_id)
                    else:
                        want_p.add(new_id)
                    if ids_p != sorted(want_p) or ids_q != sorted(want_q):
                        bad("listing-wrong", f"P lists {ids_p}, Q lists {ids_q}; expected {sorted(want_p)} / {sorted(want_q)}")
                    # what the live handles report
                    if op != "clone":
                        for hname, h in handles.items():
                            try:
                                rep = {"id": h.id, "path": os.path.realpath(h.path),
                                       "sp": canon.plain(h.statepoint()), "csp": canon.plain(dict(h.cached_statepoint))}
                                if payload != "nothing":
                                    rep["doc_who"] = h.document().get("who")
                            except Exception as e:  # noqa
                                bad("handle-raises", f"{hname} handle after {op}: {type(e).__name__}: {e}", follower=hname == "follower")
                                continue
                            want = {"id": new_id, "path": os.path.realpath(dst_dir), "sp": new, "csp": new}
                            if payload != "nothing":
                                want["doc_who"] = "source"
                            wrong = [k for k in want if not canon.typed_eq(rep[k], want[k])]
                            if wrong and not (op == "move" and hname == "follower"):
                                bad("handle-does-not-follow", f"{hname} handle ({prov}) reports "
                                    f"{ {k: rep[k] for k in wrong} }, expected { {k: want[k] for k in wrong} }",
                                    {k: want[k] for k in wrong}, {k: rep[k] for k in wrong},
                                    follower=hname == "follower", fields=",".join(sorted(wrong)))
                    else:
                        if result is None or result.id != new_id or not canon.typed_eq(canon.plain(result.statepoint()), new):
                            bad("clone-returns-wrong-job", f"clone returned {result!r}")
                    # chained step: a re-key through the handle that was just moved must carry everything once more,
                    # now inside the destination project (the handle's state point file location has to have followed)
                    if op == "move" and not viol:
                        new2 = dict(new, zz_after_move=1)
                        id2 = canon.job_id(new2)
                        try:
                            actor.statepoint["zz_after_move"] = 1
                            dir2 = os.path.join(qp, "workspace", id2)
                            if not os.path.isdir(dir2) or os.path.lexists(dst_dir):
                                bad("rekey-after-move-lost", f"re-key through the moved handle: {id2} present={os.path.isdir(dir2)}, "
                                    f"{new_id} still present={os.path.lexists(dst_dir)}; Q holds "
                                    f"{sorted(os.listdir(os.path.join(qp, 'workspace')))}")
                            elif _payload_snapshot(dir2) != src_payload:
                                bad("rekey-after-move-payload", "payload differs after a re-key through the moved handle")
                            elif os.path.realpath(actor.path) != os.path.realpath(dir2) or actor.id != id2:
                                bad("rekey-after-move-handle", f"moved handle reports {actor.id} at {actor.path}, expected {id2}")
                        except Exception as e:  # noqa
                            bad("rekey-after-move-raises", f"re-key through the moved handle raised {type(e).__name__}: {e}")
                    try:
                        signac.Project(pp).check()
                        signac.Project(qp).check()
                    except Exception as e:  # noqa
                        bad("check-fails", f"check() after {op}: {type(e).__name__}: {e}")
    return {"cls": f"{op}:{outcome}:{dest}", "viol": viol, "n": 1,
            "nt": f"{op}:{outcome}:{dest}:{payload}:{prov}:{'same' if new_id == old_id else 'diff'}", "sample": inp}


def universe(tier):
    olds = range(len(OLD))
    for old_i, edit, dest, payload, prov in itertools.product(olds, EDITS, DESTS, PAYLOADS, PROVENANCE):
        if tier == "quick" and payload == "doc" and prov in ("deepcopy", "pickle") and dest in ("handle_only",):
            continue
        yield (old_i, list(edit), dest, payload, prov)


def run(ctx):
    report = Report(LEVEL)
    tot = engine_i.run_items(ctx, universe(ctx.tier), evaluate, chunk=16)
    engine_i.fill_report(report, tot, rule=(
        "full product of 4 state points x 26 edits (key set incl. same value and 1 -> 1.0 -> True, delete, nested and "
        "list edits, whole assignment, update_statepoint x overwrite, move, clone) x 5 destination states x 3 payloads "
        "x 6 handle provenances; every case executed once on the real API between byte snapshots of both projects; "
        "distinct_nontrivial = distinct (operation, outcome, destination, payload, provenance, id changed?)"),
        extra={"bounds": {"statepoints": len(OLD), "edits": len(EDITS)},
               "alphabet_sizes": {"dest": len(DESTS), "payload": len(PAYLOADS), "provenance": len(PROVENANCE)},
               "states": len(tot.nt), "transitions": tot.n, "traces_validated_against_impl": tot.n},
        floor_distinct=100)
    report.assumptions += [
        "'existing key with another value' in update_statepoint is Python inequality; a type-only change of an equal "
        "value is an ordinary state point change",
        "after move() only the moving handle is required to describe the job in its new project",
        "clone onto an existing empty directory may either succeed or raise DestinationExistsError without effect",
    ]
    return report


def replay(payload, ctx):
    i = payload["input"]
    old_i = [k for k, o in enumerate(OLD) if canon.typed_eq(o, i["old"])][0]
    return evaluate((old_i, i["edit"], i["destination"], i["payload"], i["provenance"]))["viol"]
