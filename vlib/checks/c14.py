"""C14 — see vlib/checks/syncu.py (shared sync universe, executor and oracles)."""
from . import syncu

PROPERTY = "C14"
LEVEL = "exploration"


def items(tier):
    for c in syncu.base_cases(tier):
        yield ("case", c)
    for c in syncu.deep_cases(tier):
        yield ("case", c)


def run(ctx):
    r = syncu.run_check(ctx, "C14", items, rule=(
        "the C13 universe plus deep=True variants of every differing-file shape at all four entry points: a differing file "
        "(documented comparison: content under deep, filecmp shallow otherwise) is overwritten iff the strategy's verdict, "
        "computed by the oracle from the explicit mtimes / the predicate, is true; without strategy FileSyncConflict and the "
        "file untouched; a differing document key is overwritten iff the key strategy selects its full dotted name (update: "
        "all, NO_SYNC: none); after DocumentSyncConflict the destination document equals its pre-sync content and no backup "
        "file remains"))
    r.assumptions += ["a mapping merged onto a scalar (TypeError today) is judged by the state clauses only"]
    return r


def replay(payload, ctx):
    return syncu.replay_case(payload, "C14")
