"""C08 — the state point cache is transparent, and update_cache makes it exact.

Engine H run to CLOSURE on a closed universe: N state points, events
init(i) remove(i) rekey(i->j) update_cache restart delete-cache-file query open-by-id(i).
State = (workspace ids, decoded cache file | absent, in-memory cache key set, cache-read flag).
Oracle in every state: a fixed observation battery answers identically on a copy of the
project with the cache file and on a copy without it, and equals the model; after every
update_cache the file lists exactly the workspace ids with their true state points and an
immediate second call reports nothing to do (returns None, file not rewritten).
"""
import gzip
import json
import os
import shutil

from .. import canon, engine_h, scratch
from ..runner import Report

PROPERTY = "C08"
LEVEL = "model_checking"
_N = 2
_SALT = 0
CACHE = os.path.join(".signac", "statepoint_cache.json.gz")


_POINTS_CACHE = {}


def sps():
    """N state points {"k": i, "salt": s} whose ids all start with the same hex digit (so that abbreviated ids collide)."""
    key = (_N, _SALT)
    if key not in _POINTS_CACHE:
        uni = "r\udce9\u00e9\U0001f600"  # non-ASCII incl. a lone surrogate (os.fsdecode of a Latin-1 file name); same in every point
        pts = [{"k": 0, "salt": _SALT, "u": uni}]
        first = canon.job_id(pts[0])[0]
        i = 1
        while len(pts) < _N:
            cand = {"k": i, "salt": _SALT, "u": uni}
            if canon.job_id(cand)[0] == first:
                pts.append(cand)
            i += 1
        _POINTS_CACHE[key] = pts
    return [dict(p) for p in _POINTS_CACHE[key]]


def ops():
    out = []
    for i in range(_N):
        out.append(("init", i))
    for i in range(_N):
        out.append(("remove", i))
    for i in range(_N):
        for j in range(_N):
            if i != j:
                for route in ROUTES:
                    out.append(("rekey", i, j, route))
    for i in range(_N):
        out.append(("ext_init", i))  # another process / Project object creates the job behind the session's back
    out += [("update_cache",), ("restart",), ("delete_cache",), ("query",)]
    for i in range(_N):
        out.append(("open_by_id", i))
    return out


# how the re-keying handle is obtained and which public route changes the state point
ROUTES = ("sp+assign", "id+update", "iter+attr")


FILTERS = [{}, {"k": 0}, {"k": {"$gt": 0}}, {"k": {"$exists": True}}, {"$not": {"k": 1}}, {"k": {"$in": [0, 2]}}]
# (k values of the chosen points are arbitrary non-negative ints; the filters above are evaluated on them by _model_filter)


def _model_filter(f, k):
    if f == {}:
        return True
    if f == {"k": 0}:
        return k == 0
    if f == {"k": {"$gt": 0}}:
        return k > 0
    if f == {"k": {"$exists": True}}:
        return True
    if f == {"$not": {"k": 1}}:
        return k != 1
    if f == {"k": {"$in": [0, 2]}}:
        return k in (0, 2)
    raise ValueError(f)


def _hash_or_none(v):
    try:
        return canon.job_id(canon.plain(v))
    except Exception:
        return None


def read_cache_file(d):
    fn = os.path.join(d, CACHE)
    if not os.path.exists(fn):
        return None
    with gzip.open(fn, "rb") as f:
        return json.loads(f.read().decode())


def battery(d, ids_of, model):
    """Observations through a FRESH Project on directory d: dict of answers (or exception text)."""
    import signac

    out = {}
    try:
        p = signac.Project(d)
        out["len"] = len(p)
        out["iter"] = sorted(j.id for j in p)
        for n, f in enumerate(FILTERS):
            p = signac.Project(d)
            cur = p.find_jobs(f)
            out[f"find{n}"] = sorted(j.id for j in cur)
            out[f"len{n}"] = len(cur)
        # abbreviated ids: the shortest prefix that is unique among the jobs in the workspace
        present = [ids_of[i] for i in sorted(model)]
        for i in sorted(model):
            full = ids_of[i]
            ln = next(n for n in range(1, 33) if sum(1 for x in present if x.startswith(full[:n])) == 1)
            try:
                out[f"abbr{i}"] = signac.Project(d).open_job(id=full[:ln]).id
            except Exception as e:  # noqa
                out[f"abbr{i}"] = f"{type(e).__name__}"
        p = signac.Project(d)
        for i in sorted(model):
            job = p.open_job(id=ids_of[i])
            out[f"sp{i}"] = canon.canon_json(canon.plain(job.statepoint()))
            out[f"csp{i}"] = canon.canon_json(canon.plain(dict(p.open_job(id=ids_of[i]).cached_statepoint)))
            out[f"in{i}"] = job in p
    except Exception as e:  # noqa
        out["exception"] = f"{type(e).__name__}: {e}"
    return out


def expected_battery(ids_of, model, points):
    out = {"len": len(model), "iter": sorted(ids_of[i] for i in model)}
    for n, f in enumerate(FILTERS):
        m = sorted(ids_of[i] for i in model if _model_filter(f, points[i]["k"]))
        out[f"find{n}"] = m
        out[f"len{n}"] = len(m)
    for i in sorted(model):
        out[f"abbr{i}"] = ids_of[i]
        out[f"sp{i}"] = canon.canon_json(points[i])
        out[f"csp{i}"] = canon.canon_json(points[i])
        out[f"in{i}"] = True
    return out


def execute(hist):
    import signac
    from signac.errors import DestinationExistsError

    points = sps()
    ids_of = [canon.job_id(sp) for sp in points]
    idx_of = {v: k for k, v in enumerate(ids_of)}
    viol = []
    model = set()
    ncalls = 0
    expected_failure = False

    def bad(kind, msg, expected=None, observed=None, **extra):
        viol.append({"sig": dict(kind=kind, **extra), "scenario": f"cache-closure/{_N}sp",
                     "input": {"history": [list(o) for o in hist], "n_statepoints": _N, "salt": _SALT},
                     "expected": expected, "observed": observed, "msg": msg})

    with scratch.fresh("c08") as root:
        d = os.path.join(root, "p")
        os.makedirs(d)
        signac.init_project(d)
        session = signac.Project(d)
        for k, op in enumerate(hist):
            last = k == len(hist) - 1
            ncalls += 1
            name = op[0]
            try:
                if name == "init":
                    session.open_job(points[op[1]]).init()
                    model.add(op[1])
                elif name == "remove":
                    session.open_job(points[op[1]]).remove()
                    model.discard(op[1])
                elif name == "ext_init":
                    signac.Project(d).open_job(points[op[1]]).init()
                    model.add(op[1])
                elif name == "rekey":
                    i, j = op[1], op[2]
                    route = op[3] if len(op) > 3 else ROUTES[0]
                    if route == "id+update" and i in model:
                        job = session.open_job(id=ids_of[i])
                    elif route == "iter+attr" and i in model:
                        job = next(x for x in session if x.id == ids_of[i])
                    else:
                        job = session.open_job(points[i])
                    should_fail = i in model and j in model
                    try:
                        if route == "id+update":
                            job.update_statepoint({"k": points[j]["k"]}, overwrite=True)
                        elif route == "iter+attr":
                            job.sp.k = points[j]["k"]
                        else:
                            given = json.loads(json.dumps(points[j]))
                            try:
                                job.statepoint = given
                            finally:
                                given.clear()  # what the caller does with its own mapping afterwards must not matter
                                given["k"] = "changed by the caller"
                        failed = None
                    except DestinationExistsError as e:
                        failed = e
                    if should_fail:
                        expected_failure = expected_failure or last
                        if failed is None and last:
                            bad("rekey-clobbers", f"re-keying {i}->{j} onto an initialised job did not raise")
                    else:
                        if failed is not None and last:
                            bad("rekey-raises", f"re-keying {i}->{j} raised {failed!r}")
                        if i in model:
                            model.discard(i)
                            model.add(j)
                elif name == "update_cache":
                    ret = session.update_cache()
                    if last:
                        content = read_cache_file(d)
                        want = {ids_of[i]: points[i] for i in model}
                        if content is None or set(content) != set(want) or any(
                                not canon.typed_eq(content[i], want[i]) for i in want):
                            stale = sorted(set(content or {}) - set(want))
                            missing = sorted(set(want) - set(content or {}))
                            bad("update-cache-not-exact",
                                f"after update_cache() (returned {ret!r}) the cache file lists "
                                f"{sorted(content) if content is not None else None}, workspace holds {sorted(want)}",
                                sorted(want), sorted(content) if content is not None else None,
                                stale=bool(stale), missing=bool(missing), file_absent=content is None)
                        else:
                            st1 = os.stat(os.path.join(d, CACHE))
                            ret2 = session.update_cache()
                            ncalls += 1
                            st2 = os.stat(os.path.join(d, CACHE))
                            if ret2 is not None or (st1.st_ino, st1.st_mtime_ns) != (st2.st_ino, st2.st_mtime_ns):
                                bad("update-cache-second-call-not-noop",
                                    f"immediate second update_cache() returned {ret2!r} / rewrote the file",
                                    None, ret2)
                elif name == "restart":
                    session = signac.Project(d)
                elif name == "delete_cache":
                    try:
                        os.remove(os.path.join(d, CACHE))
                    except FileNotFoundError:
                        pass
                elif name == "query":
                    got = sorted(j.id for j in session.find_jobs({"k": {"$exists": True}}))
                    want = sorted(ids_of[i] for i in model)
                    if got != want and last:
                        bad("session-query-wrong", f"find_jobs through the long-lived session gives {got}, model {want}",
                            want, got)
                elif name == "open_by_id":
                    i = op[1]
                    try:
                        sp = session.open_job(id=ids_of[i]).statepoint()
                        if not canon.typed_eq(canon.plain(sp), points[i]) and last:
                            bad("open-by-id-wrong-statepoint", f"open_job(id) gives {sp!r}", points[i], repr(sp))
                    except KeyError:
                        # unknown to this session and not in the workspace: documented outcome
                        if i in model and last:
                            bad("open-by-id-keyerror-for-existing-job", f"open_job(id={ids_of[i]}) raised KeyError")
                else:
                    raise ValueError(op)
            except Exception as e:  # noqa
                if last:
                    bad("operation-raises", f"{op} raised {type(e).__name__}: {e}", None, repr(e), op=name)
                else:
                    raise
        # observation battery: with cache file (as is) vs without, vs model
        if not viol:
            a = os.path.join(root, "A")
            b = os.path.join(root, "B")
            shutil.copytree(d, a)
            shutil.copytree(d, b)
            try:
                os.remove(os.path.join(b, CACHE))
            except FileNotFoundError:
                pass
            ra, rb = battery(a, ids_of, model), battery(b, ids_of, model)
            want = expected_battery(ids_of, model, points)
            ncalls += 2 * (3 + 2 * len(FILTERS) + 3 * len(model))
            if ra != rb:
                diff = {k: (ra.get(k), rb.get(k)) for k in set(ra) | set(rb) if ra.get(k) != rb.get(k)}
                bad("cache-not-transparent", f"answers differ with / without the cache file: {diff}", rb, ra)
            elif ra != want:
                diff = {k: (ra.get(k), want.get(k)) for k in set(ra) | set(want) if ra.get(k) != want.get(k)}
                bad("observation-differs-from-model", f"fresh-session answers differ from the model: {diff}", want, ra)
        content = read_cache_file(d)
        key = json.dumps({
            "ws": sorted((idx_of.get(n, n) for n in os.listdir(os.path.join(d, "workspace"))), key=str),
            "file": None if content is None else sorted((idx_of.get(n, n) for n in content), key=str),
            "mem": sorted((idx_of.get(n, n) for n in getattr(session, "_sp_cache", ())), key=str),
            "read": getattr(session, "_sp_cache_read", None),
            # entries whose value does not hash to their key (impossible as long as the cache is content-addressed)
            "mem_inconsistent": sorted((idx_of.get(n, n) for n, v in getattr(session, "_sp_cache", {}).items() if _hash_or_none(v) != n), key=str),
            "file_inconsistent": sorted((idx_of.get(n, n) for n, v in (content or {}).items() if _hash_or_none(v) != n), key=str),
        }, sort_keys=True, default=str)
    return {"key": key, "enabled": [list(o) for o in ops()], "viol": viol, "n": ncalls,
            "cls": hist[-1][0] if hist else "init", "expected_failure": expected_failure}


def _exec(hist):
    return execute(tuple(tuple(o) for o in hist))


def _thread_item(item):
    from .. import engine_t
    return engine_t.isolated(_thread_item_here, item)


def _thread_item_here(item):
    """update_cache / find_jobs read the state points of uncached jobs in a thread pool: every interleaving of those
    threads (<= bound preemptions, scheduling points before every open / stat / listing system call) must give the serial answer."""
    import itertools  # noqa

    import signac
    import signac.project as sproj

    from .. import engine_t
    present, cached, bound, salt, n_sp = item
    global _N, _SALT
    _N, _SALT = n_sp, salt
    pts = sps()
    ids = [canon.job_id(x) for x in pts]
    want = {"ids": sorted(ids[i] for i in present), "cache": {ids[i]: pts[i] for i in present},
            "find": sorted(ids[i] for i in present if pts[i]["k"] > 0), "ret_positive": True}

    def run_once(sched):
        with scratch.fresh("c08t") as d:
            p0 = signac.init_project(d)
            for i in cached:
                p0.open_job(pts[i]).init()
            if cached:
                p0.update_cache()
            for i in cached:
                if i not in present:
                    p0.open_job(pts[i]).remove()
            for i in present:
                p0.open_job(pts[i]).init()
            orig = getattr(sproj, "ThreadPool", None)
            if orig is not None:
                sproj.ThreadPool = engine_t.make_pool_class(sched)
            try:
                p = signac.Project(d)
                found = sorted(j.id for j in p.find_jobs({"k": {"$gt": 0}}))
                p = signac.Project(d)
                ret = p.update_cache()
                got_ids = sorted(j.id for j in p)
                sp_seen = {i: canon.plain(p.open_job(id=i).statepoint()) for i in got_ids}
            finally:
                if orig is not None:
                    sproj.ThreadPool = orig
            return json.dumps({"ids": got_ids, "cache": read_cache_file(d), "find": found, "sp": sp_seen,
                               "ret_positive": sorted(present) == sorted(cached) or bool(ret)}, sort_keys=True)
    res = engine_t.explore(run_once, bound, mutating_only=False)
    want_s = json.dumps(dict(want, sp=want["cache"]), sort_keys=True)
    viol = []
    for obs, sched in res["observations"].items():
        if obs != want_s:
            viol.append({"sig": {"kind": "thread-schedule-changes-cache-or-query"}, "scenario": "threads",
                         "input": {"threads": True, "present": list(present), "cached": list(cached), "bound": bound, "salt": salt,
                                   "n_statepoints": n_sp, "schedule": sched},
                         "expected": want_s[:600], "observed": obs[:600],
                         "msg": f"jobs {list(present)} (cache file lists {list(cached)}): under thread schedule {sched} find_jobs / "
                                f"update_cache / open by id give {obs[:300]}, expected {want_s[:300]}"})
    return {"cls": f"threads:{len(present)}", "viol": viol[:2], "n": res["schedules"],
            "nt": f"threads|{present}|{cached}|{res['points_max']}",
            "counters": {"thread_schedules": res["schedules"], "thread_harnesses": 1,
                         "thread_harnesses_with_2+_threads": int(res["schedules"] > 1),
                         "thread_harnesses_without_controlled_pool": int(res["pools_seen"] == 0)}}


def _scale_item(item):
    """Many uncached jobs at once (the state points are read in chunks): update_cache must list every one of them, and a
    second call must have nothing to do."""
    import signac

    _, n_jobs, salt = item
    viol = []
    with scratch.fresh("c08s") as d:
        p0 = signac.init_project(d)
        want = {}
        for i in range(n_jobs):
            sp = {"i": i, "salt": salt}
            p0.open_job(sp).init()
            want[canon.job_id(sp)] = sp
        p = signac.Project(d)
        ret = p.update_cache()
        content = read_cache_file(d)
        if content is None or set(content) != set(want) or any(content[k] != want[k] for k in want):
            missing = sorted(set(want) - set(content or {}))
            viol.append({"sig": {"kind": "update-cache-not-exact", "scale": True, "missing": bool(missing)}, "scenario": "scale",
                         "input": {"scale": True, "n_jobs": n_jobs, "salt": salt}, "expected": n_jobs,
                         "observed": None if content is None else len(content),
                         "msg": f"{n_jobs} uncached jobs: update_cache() returned {ret!r}, the cache file lists "
                                f"{None if content is None else len(content)} ids ({len(missing)} missing)"})
        else:
            ret2 = p.update_cache()
            if ret2 is not None:
                viol.append({"sig": {"kind": "update-cache-second-call-not-noop", "scale": True}, "scenario": "scale",
                             "input": {"scale": True, "n_jobs": n_jobs, "salt": salt}, "expected": None, "observed": repr(ret2),
                             "msg": f"{n_jobs} jobs: an immediate second update_cache() returned {ret2!r}"})
            got = sorted(j.id for j in signac.Project(d).find_jobs({"i": {"$gte": n_jobs - 3}}))
            exp = sorted(k for k, v in want.items() if v["i"] >= n_jobs - 3)
            if got != exp:
                viol.append({"sig": {"kind": "cache-not-transparent", "scale": True}, "scenario": "scale",
                             "input": {"scale": True, "n_jobs": n_jobs, "salt": salt}, "expected": exp, "observed": got,
                             "msg": f"{n_jobs} jobs: query through the cache gives {got}, expected {exp}"})
    return {"cls": f"scale:{n_jobs}", "viol": viol, "n": 3, "nt": f"scale|{n_jobs}"}


def _thread_or_scale(item):
    return _scale_item(item) if item and item[0] == "scale" else _thread_item(item)


def _thread_items(ctx):
    # workspace sizes around the chunking boundaries of the state point reader (chunks only exist above 2000 jobs)
    for n_jobs in ((2001,) if ctx.quick else (1999, 2001, 3001, 4567)):
        yield ("scale", n_jobs, ctx.seed)
    import itertools
    n = 3 if ctx.quick else 4
    idx = range(n)
    for r in range(1, n + 1):
        for present in itertools.combinations(idx, r):
            for cr in range(0, n + 1):
                for cached in itertools.combinations(idx, cr):
                    if len(set(present) - set(cached)) >= 2 or (ctx.quick is False and set(present) != set(cached)):
                        yield (present, cached, 2 if len(present) <= 3 else 1, ctx.seed, n)


def run(ctx):
    global _N, _SALT
    report = Report(LEVEL)
    _N = 3 if ctx.quick else 4
    _SALT = ctx.seed
    st = engine_h.explore(ctx, _exec, max_depth=64, chunk=4)
    engine_h.fill_report(report, st, extra={
        "bounds": {"statepoints": _N, "depth": "closure (fixpoint)" if st.closed else f"depth {st.max_depth} (NOT closed)"},
        "alphabet_sizes": {"events": len(ops()), "observations_per_state": 3 + 2 * len(FILTERS)},
        "exhaustive": bool(st.closed),
        "rule": "breadth-first search over event histories on the real Project API, de-duplicated by "
                "(workspace ids, decoded cache file, in-memory cache keys, cache-read flag), run until no new state appears",
    })
    if not st.closed:
        report.harness_errors.append("state space did not close within the depth guard")
    from .. import engine_i
    tot = engine_i.run_items(ctx, _thread_items(ctx), _thread_or_scale, chunk=1)
    report.violations.extend(tot.viol)
    report.harness_errors.extend(tot.herr)
    report.coverage["threads"] = dict(tot.counters, rule="engine T: every interleaving with <= 2 preemptions of the pool threads "
                                      "that read uncached state points (find_jobs, update_cache), for every (workspace subset, "
                                      "cached subset) with >= 2 uncached jobs", distinct=len(tot.nt))
    report.assumptions += ["state abstraction: cache values are determined by their id (content hash), so key sets suffice",
                           "rewrites of the cache file are detected by inode/mtime change",
                           "job handles are not retained across events (every event opens its own handle)"]
    return report


def replay(payload, ctx):
    global _N, _SALT
    _N = payload["input"].get("n_statepoints", 2)
    _SALT = payload["input"].get("salt", 0)
    if payload["input"].get("scale"):
        return _scale_item(("scale", payload["input"]["n_jobs"], payload["input"].get("salt", 0)))["viol"]
    if payload["input"].get("threads"):
        i = payload["input"]
        return _thread_item((tuple(i["present"]), tuple(i["cached"]), i["bound"], i["salt"], i["n_statepoints"]))["viol"]
    return _exec(payload["input"]["history"])["viol"]
