"""C16 — export then import reproduces the project; nothing dropped, merged or misplaced.

Engine I: projects from state point universes built to collide textually x target kinds (directory,
zip, tar, tar.gz, tar.bz2, tar.xz) x path specifications (None, False, format strings incl. {{auto}}
variants, callables: unique / colliding / leaf-node conflicting) x listing order.  Oracle: the
re-imported project has the same ids, typed-equal state points, documents and file trees - or the call
raised and nothing was copied; the source is unchanged; export writes only beneath its target, import
only inside the job directories of imported ids; an existing job is never overwritten; schema strings
parse back the typed state point that produced a path.
"""
import itertools
import json
import os
import shutil
import tarfile
import zipfile

from .. import canon, engine_i, env, scratch
from ..runner import Report

PROPERTY = "C16"
LEVEL = "exploration"
SPF = "signac_statepoint.json"

UNIVERSES = {
    "a-1-10-100": [{"a": 1}, {"a": 10}, {"a": 100}, {"a": 11}],
    "types": [{"a": 1}, {"a": 1.0}, {"a": "1"}],
    "bool": [{"a": True}, {"a": "True"}, {"a": False}],
    "prefix-keys": [{"a": 1, "ab": 2}, {"a": 2, "ab": 2}, {"a": 1, "ab": 3}],
    "nested": [{"c": {"d": 1}}, {"c": {"d": 2}}, {"c": {"d": 2}, "e": 1}],
    "hetero": [{"a": 1}, {"b": 2}, {"a": 1, "b": 2}],
    "strings": [{"s": "x y"}, {"s": "x.y"}, {"s": "x_y"}, {"s": "xy"}],
    "floats": [{"f": 0.5}, {"f": 1.5}, {"f": 2.0}, {"f": 2}],
    "two-keys": [{"a": 1, "b": 1}, {"a": 1, "b": 2}, {"a": 2, "b": 1}, {"a": 2, "b": 2}],
    "empty-sp": [{}, {"a": 1}, {"a": 2}],
}
TARGETS = ["dir", ".zip", ".tar", ".tar.gz", ".tar.bz2", ".tar.xz"]
PATHSPECS = ["none", "false", "fmt:a_{a}", "fmt:{{auto}}", "fmt:x/{{auto:_}}", "fmt:{a}/{{auto}}", "fmt:{job.id}",
             "fmt:k/{job.sp.a}", "call:unique", "call:colliding", "call:leafnode", "call:nodeleaf"]


def projects(tier):
    """(universe name, tuple of indices)"""
    maxn = 4 if tier == "quick" else 6
    yield ("a-1-10-100", ())
    for name, sps in UNIVERSES.items():
        n = len(sps)
        for r in range(1, min(n, maxn) + 1):
            for sub in itertools.combinations(range(n), r):
                if tier == "quick" and r == 2 and sub[0] != 0:
                    continue
                yield (name, sub)


def make_pathspec(spec, sps_by_id):
    if spec == "none":
        return None
    if spec == "false":
        return False
    if spec.startswith("fmt:"):
        return spec[4:]
    ordered = sorted(sps_by_id)
    if spec == "call:unique":
        return lambda job: os.path.join("u", job.id[:8])
    if spec == "call:colliding":
        return lambda job: "same"
    if spec == "call:leafnode":
        return lambda job: "x" if job.id == ordered[0] else os.path.join("x", "y" + job.id[:4])
    if spec == "call:nodeleaf":
        return lambda job: "x" if job.id == ordered[-1] else os.path.join("x", "y" + job.id[:4])
    raise ValueError(spec)


def fill(job, i):
    job.doc["i"] = i
    job.doc["nested"] = {"k": [i, 2.5]}
    os.makedirs(job.fn("data/deep"), exist_ok=True)
    with open(job.fn("top.txt"), "w") as f:
        f.write(f"top {i}")
    with open(job.fn("data/deep/d.bin"), "wb") as f:
        f.write(bytes([i]) * 33)
    # data that happens to look like a job two levels down must stay data
    os.makedirs(job.fn("data/deep/inner"), exist_ok=True)
    with open(job.fn("data/deep/inner/" + SPF), "w") as f:
        json.dump({"inner": i}, f)


def project_content(path):
    """{id: (sp, doc, {relpath: sha})} through fresh handles + raw files"""
    import signac

    out = {}
    p = signac.Project(path)
    for job in p:
        snap = canon.snapshot(job.path)
        files = {k: v for k, v in snap.items() if v[0] == "f" and k not in (SPF, "signac_job_document.json")}
        out[job.id] = (canon.plain(job.statepoint()), canon.plain(job.document()) if job.isfile("signac_job_document.json") else {}, files)
    return out


def archive_job_members(target):
    """names inside the export target that look like job data (state point files)"""
    if not os.path.lexists(target):
        return []
    if os.path.isdir(target):
        return [os.path.join(dp, f) for dp, _, fn in os.walk(target) for f in fn]
    try:
        if zipfile.is_zipfile(target):
            with zipfile.ZipFile(target) as z:
                return [n for n in z.namelist() if n.endswith(SPF)]
        if tarfile.is_tarfile(target):
            with tarfile.open(target) as t:
                return [m.name for m in t.getmembers() if m.name.endswith(SPF)]
    except Exception:
        return ["<unreadable archive>"]
    return []


def evaluate(item):
    import signac
    from signac.errors import DestinationExistsError

    if item[0] == "schema":
        return eval_schema(item)
    if item[0] == "schema3":
        return eval_schema3(item)
    _, uni, idxs, tkind, spec, order, mode = item
    mode_full = mode
    mode, _, location = mode.partition("@")  # where the export target lives relative to the importing project
    sps = [UNIVERSES[uni][i] for i in idxs]
    viol = []
    inp = {"kind": "roundtrip", "universe": uni, "indices": list(idxs), "target": tkind, "pathspec": spec, "order": order,
           "mode": mode_full, "statepoints": sps}

    def bad(kind, msg, **extra):
        viol.append({"sig": dict(kind=kind, **extra), "scenario": f"{tkind}/{spec}", "input": inp,
                     "expected": "round trip or early failure", "observed": msg, "msg": msg})
    with scratch.fresh("c16") as root, env.listing_order(order):
        sp_, qp = os.path.join(root, "S"), os.path.join(root, "Q")
        os.makedirs(sp_)
        os.makedirs(qp)
        S = signac.init_project(sp_)
        for i, sp in enumerate(sps):
            fill(S.open_job(sp).init(), i)
        src_content = project_content(sp_)
        tname = "export" + ("" if tkind == "dir" else tkind)
        # "inside": below the importing project's root (not in its workspace); "sibling": next to it, the name extending its name
        trel = {"": os.path.join("out", tname), "inside": os.path.join("Q", "exported", tname), "sibling": "Q_" + tname}[location]
        target = os.path.join(root, trel)
        os.makedirs(os.path.dirname(target), exist_ok=True)
        before_root = canon.snapshot(root)
        path = make_pathspec(spec, src_content)
        try:
            signac.Project(sp_).export_to(target, path=path)
            exp_exc = None
        except Exception as e:  # noqa
            exp_exc = e
        after_root = canon.snapshot(root)
        changed = [d for d in canon.snap_diff(before_root, after_root) if not (d[0] == trel or d[0].startswith(trel + "/"))]
        changed = [d for d in changed if not d[0].startswith("S/.signac")]
        if changed:
            bad("export-writes-outside-target" if not any(d[0].startswith("S/") for d in changed) else "export-modifies-source",
                f"export changed paths outside its target: {changed[:5]}")
        outcome = "export-ok"
        if exp_exc is not None:
            outcome = "export-raises:" + type(exp_exc).__name__
            left = archive_job_members(target)
            if left:
                bad("failed-export-leaves-job-data", f"export raised {type(exp_exc).__name__}: {exp_exc} but the target holds "
                    f"{left[:4]}", exc=type(exp_exc).__name__, spec_kind=spec.split(":")[0])
            # which failures are legitimate?  non-unique / leaf-node conflicting / unformattable specifications
            if not export_may_fail(sps, spec):
                bad("export-raises-on-representable-input", f"export of {sps} with path {spec} raised {type(exp_exc).__name__}: {exp_exc}",
                    exc=type(exp_exc).__name__)
        else:
            if export_must_fail(sps, spec):
                bad("unrepresentable-paths-accepted", f"export of {sps} with path {spec} did not reject non-unique or "
                    f"leaf/node-conflicting paths", why=export_must_fail(sps, spec))
            # import into an empty project (or one that already holds a job, mode == 'existing')
            Q = signac.init_project(qp)
            pre_existing = None
            if mode in ("existing", "existing-last") and sps:
                ej = Q.open_job(sps[0] if mode == "existing" else sps[-1]).init()
                with open(ej.fn("mine.txt"), "w") as f:
                    f.write("do not touch")
                pre_existing = canon.snapshot(ej.path)
            before_imp = canon.snapshot(root)
            try:
                signac.Project(qp).import_from(target)
                imp_exc = None
            except Exception as e:  # noqa
                imp_exc = e
            after_imp = canon.snapshot(root)
            outcome = "import-ok" if imp_exc is None else "import-raises:" + type(imp_exc).__name__
            diffs = canon.snap_diff(before_imp, after_imp)
            imported_ids = set(src_content) if imp_exc is None else set(src_content)
            stray = [d for d in diffs if not any(d[0] == f"Q/workspace/{i}" or d[0].startswith(f"Q/workspace/{i}/") for i in imported_ids)
                     and not d[0].startswith("Q/.signac") and d[0] != "Q/workspace"]
            if stray:
                bad("import-writes-outside-job-directories", f"import changed {stray[:5]}", target=tkind)
            if pre_existing is not None:
                ej_id = canon.job_id(sps[0] if mode == "existing" else sps[-1])
                ej_now = canon.snapshot(os.path.join(qp, "workspace", ej_id))
                if ej_now != pre_existing:
                    bad("import-overwrites-existing-job", f"the pre-existing job changed: {canon.snap_diff(pre_existing, ej_now)[:4]}",
                        target=tkind)
                if imp_exc is None or not isinstance(imp_exc, DestinationExistsError):
                    bad("existing-job-not-reported", f"import over an existing job ended with {outcome}", target=tkind)
                elif tkind != "dir":
                    # archives are analysed completely before anything is copied: a refused import copies nothing
                    others = [d for d in diffs if d[0].startswith("Q/workspace/") and not d[0].startswith(f"Q/workspace/{ej_id}")]
                    if others:
                        bad("refused-archive-import-copied-jobs", f"import raised DestinationExistsError but had already copied "
                            f"{sorted({d[0].split('/')[2] for d in others})}", target=tkind)
            elif imp_exc is not None:
                if [d for d in diffs if d[0].startswith("Q/workspace/")]:
                    bad("failed-import-changed-project", f"import raised {type(imp_exc).__name__}: {imp_exc} after copying "
                        f"{[d[0] for d in diffs][:4]}", target=tkind)
            else:
                got = project_content(qp)
                if set(got) != set(src_content):
                    bad("jobs-dropped-or-added", f"source ids {sorted(src_content)}, re-imported {sorted(got)} "
                        f"(statepoints {sps}, path {spec}, target {tkind})", target=tkind, single_job=len(sps) == 1,
                        spec_kind=spec.split(":")[0], dropped=len(set(src_content) - set(got)))
                for jid in set(got) & set(src_content):
                    a, b = src_content[jid], got[jid]
                    if not canon.typed_eq(a[0], b[0]):
                        bad("statepoint-differs", f"{jid}: {a[0]} vs {b[0]}")
                    if not canon.typed_eq(a[1], b[1]):
                        bad("document-differs", f"{jid}: {a[1]} vs {b[1]}")
                    if a[2] != b[2]:
                        bad("files-differ", f"{jid}: {canon.snap_diff(a[2], b[2])[:4]}", target=tkind)
                try:
                    signac.Project(qp).check()
                except Exception as e:  # noqa
                    bad("check-fails-after-import", f"{type(e).__name__}: {e}")
                # second round in the same process, to the SAME target path, after the source project changed (one job
                # added if the universe has another state point, else the last one removed): nothing remembered from the
                # first round may show through
                if not viol and mode == "empty":
                    rest = [i for i in range(len(UNIVERSES[uni])) if i not in idxs]
                    S2 = signac.Project(sp_)
                    if rest:
                        fill(S2.open_job(UNIVERSES[uni][rest[0]]).init(), 7)
                        sps2 = sps + [UNIVERSES[uni][rest[0]]]
                    else:
                        S2.open_job(sps[-1]).remove()
                        sps2 = sps[:-1]
                    src2 = project_content(sp_)
                    src_content = src2  # what the source project is expected to hold from now on
                    if os.path.isdir(target):
                        shutil.rmtree(target)
                    elif tkind != ".zip":
                        os.remove(target)  # (a zip target stays: exporting to it again replaces it)
                    try:
                        signac.Project(sp_).export_to(target, path=make_pathspec(spec, src2))
                        q2 = os.path.join(root, "Q2")
                        os.makedirs(q2)
                        signac.init_project(q2)
                        signac.Project(q2).import_from(target)
                        second = None
                    except Exception as e:  # noqa
                        second = e
                    if second is None:
                        got2 = project_content(q2)
                        if {k: (canon.canon_json(v[0]), canon.canon_json(v[1]), v[2]) for k, v in got2.items()} != \
                                {k: (canon.canon_json(v[0]), canon.canon_json(v[1]), v[2]) for k, v in src2.items()}:
                            bad("second-round-differs", f"after changing the source project ({len(sps)} -> {len(sps2)} jobs) and "
                                f"exporting to the same path again, the re-import holds {sorted(got2)}, the source {sorted(src2)}",
                                target=tkind)
                    elif not export_may_fail(sps2, spec):
                        bad("second-round-raises", f"second export/import round to the same path raised {type(second).__name__}: {second}",
                            target=tkind, exc=type(second).__name__)
        if canon.snapshot(sp_) != {k[2:]: v for k, v in before_root.items() if k.startswith("S/")} and False:
            pass
        now_src = project_content(sp_)
        if now_src != src_content:
            bad("export-modifies-source", "source project content changed")
    return {"cls": outcome, "viol": viol, "n": 2, "nt": f"{uni}|{len(idxs)}|{tkind}|{spec}|{outcome}", "sample": inp}


def _auto_pairs(sps):
    """textual key/value pairs of the automatic path of every job, or None when a job has none"""
    flats = []
    for sp in sps:
        f = {}

        def rec(d, pre=""):
            for k, v in d.items():
                if isinstance(v, dict) and v:
                    rec(v, pre + k + ".")
                else:
                    f[pre + k] = v
        rec(sp)
        flats.append(f)
    keys = set(k for f in flats for k in f)
    non = {k for k in keys if sum(1 for f in flats if k in f) < len(flats)
           or len({canon.tagged(tuple(f[k]) if isinstance(f[k], list) else f[k]) for f in flats}) > 1}
    return [sorted((k, str(f[k])) for k in f if k in non) for f in flats]


def export_must_fail(sps, spec):
    """Reason why this (project, path spec) cannot be represented, or '' (then export may still fail legitimately)."""
    if len(sps) <= 1 and spec in ("none", "fmt:{{auto}}"):
        return ""
    if spec == "call:colliding" and len(sps) > 1:
        return "non-unique"
    if spec in ("call:leafnode", "call:nodeleaf") and len(sps) > 1:
        return "leaf-node"
    if spec in ("none", "fmt:{{auto}}", "fmt:x/{{auto:_}}") and len(sps) > 1:
        pairs = _auto_pairs(sps)
        if len({tuple(p) for p in pairs}) != len(pairs):
            return "non-unique"
        if spec in ("none", "fmt:{{auto}}"):
            # leaf/node: one job's pair set is a strict subset of another's can put a job inside another job's directory
            pass
    if spec == "fmt:a_{a}" and all("a" in sp for sp in sps) and len({str(sp["a"]) for sp in sps}) != len(sps):
        return "non-unique"
    if spec == "fmt:k/{job.sp.a}" and all("a" in sp for sp in sps) and len({str(sp["a"]) for sp in sps}) != len(sps):
        return "non-unique"
    return ""


def export_may_fail(sps, spec):
    if export_must_fail(sps, spec):
        return True
    if spec.startswith("fmt:") and "{a}" in spec or "job.sp.a" in spec or "a_{a}" in spec:
        if not all("a" in sp for sp in sps):
            return True
    if spec in ("none", "fmt:{{auto}}", "fmt:x/{{auto:_}}", "fmt:{a}/{{auto}}") and len(sps) > 1:
        pairs = _auto_pairs(sps)
        if any(not p for p in pairs):
            return True  # heterogeneous schema: a job without distinguishing keys
        # leaf/node conflicts of the automatic layout (one job's path is a prefix of another's) are legitimately rejected
        return True if any(set(p) < set(q) for p in pairs for q in pairs if p != q) else spec == "fmt:{a}/{{auto}}"
    return False


def eval_schema(item):
    """A schema string parses back the typed state point that produced a path."""
    import signac

    _, typ, values = item
    viol = []
    with scratch.fresh("c16s") as root:
        data = os.path.join(root, "data")
        for v in values:
            d = os.path.join(data, "key", str(v), "sub")
            os.makedirs(d)
            with open(os.path.join(data, "key", str(v), "f.txt"), "w") as f:
                f.write(str(v))
        qp = os.path.join(root, "Q")
        os.makedirs(qp)
        Q = signac.init_project(qp)
        spec = "key/{key:%s}" % typ if typ != "default" else "key/{key}"
        try:
            Q.import_from(data, schema=spec)
            got = sorted((canon.canon_json(canon.plain(j.statepoint())) for j in signac.Project(qp)))
            want = sorted(canon.canon_json({"key": v}) for v in values)
            if got != want:
                viol.append({"sig": {"kind": "schema-string-parses-wrong-type", "type": typ}, "scenario": "schema",
                             "input": {"kind": "schema", "type": typ, "values": values}, "expected": want, "observed": got,
                             "msg": f"schema {spec}: imported state points {got}, expected {want}"})
            for j in signac.Project(qp):
                if not j.isfile("f.txt") or not os.path.isdir(j.fn("sub")):
                    viol.append({"sig": {"kind": "schema-import-loses-files", "type": typ}, "scenario": "schema",
                                 "input": {"kind": "schema", "type": typ, "values": values}, "expected": "files", "observed": os.listdir(j.path),
                                 "msg": f"job {j.statepoint()} lacks its files"})
        except Exception as e:  # noqa
            viol.append({"sig": {"kind": "schema-import-raises", "type": typ, "exc": type(e).__name__}, "scenario": "schema",
                         "input": {"kind": "schema", "type": typ, "values": values}, "expected": "import", "observed": repr(e),
                         "msg": f"schema {spec} on values {values}: {type(e).__name__}: {e}"})
    return {"cls": "schema:" + typ, "viol": viol, "n": 1, "nt": f"schema|{typ}|{values}", "sample": {"type": typ, "values": values}}


def eval_schema3(item):
    """A three-field schema string over a directory layout, with the origin spelled absolute, relative and with './'."""
    import signac

    _, spelling = item
    viol = []
    want_sps = [{"a": a, "b": b, "c": c} for a in (1, 2) for b in (1, 2) for c in (1, 2)]
    with scratch.fresh("c16t") as root:
        data = os.path.join(root, "data")
        for sp in want_sps:
            d = os.path.join(data, "a", str(sp["a"]), "b", str(sp["b"]), "c", str(sp["c"]))
            os.makedirs(d)
            with open(os.path.join(d, "f.txt"), "w") as f:
                f.write(json.dumps(sp))
        qp = os.path.join(root, "Q")
        os.makedirs(qp)
        signac.init_project(qp)
        os.chdir(root)
        origin = {"absolute": data, "relative": "data", "dot-relative": "./data", "double-slash": root + "//data"}[spelling]
        try:
            signac.Project(qp).import_from(origin, schema="a/{a:int}/b/{b:int}/c/{c:int}")
            got = sorted(canon.canon_json(canon.plain(j.statepoint())) for j in signac.Project(qp))
            files_ok = all(j.isfile("f.txt") and json.load(open(j.fn("f.txt"))) == canon.plain(j.statepoint()) for j in signac.Project(qp))
            want = sorted(canon.canon_json(sp) for sp in want_sps)
            if got != want or not files_ok:
                viol.append({"sig": {"kind": "schema-string-import-wrong", "origin": spelling}, "scenario": "schema3",
                             "input": {"kind": "schema3", "origin": spelling}, "expected": want, "observed": got,
                             "msg": f"import_from({origin!r}, schema with three fields) gives {got} (files intact: {files_ok}), expected {want}"})
        except Exception as e:  # noqa
            viol.append({"sig": {"kind": "schema-import-raises", "origin": spelling, "exc": type(e).__name__}, "scenario": "schema3",
                         "input": {"kind": "schema3", "origin": spelling}, "expected": "import", "observed": repr(e),
                         "msg": f"three-field schema import from {origin!r}: {type(e).__name__}: {e}"})
        finally:
            os.chdir("/")
    return {"cls": "schema3:" + spelling, "viol": viol, "n": 1, "nt": f"schema3|{spelling}"}


def universe(tier):
    quick = tier == "quick"
    for spelling in ("absolute", "relative", "dot-relative", "double-slash"):
        yield ("schema3", spelling)
    targets = ["dir", ".zip", ".tar.gz"] if quick else TARGETS
    for (uni, idxs) in projects(tier):
        for tkind in targets:
            for spec in PATHSPECS:
                if quick and spec in ("fmt:k/{job.sp.a}", "call:nodeleaf") and tkind != "dir":
                    continue
                for order in ("sorted", "reversed"):
                    if quick and order == "reversed" and tkind == ".tar.gz":
                        continue
                    yield ("rt", uni, idxs, tkind, spec, order, "empty")
            if idxs and tkind == "dir":
                yield ("rt", uni, idxs, tkind, "none", "sorted", "empty@inside")
                yield ("rt", uni, idxs, tkind, "false", "sorted", "empty@sibling")
            if idxs:
                yield ("rt", uni, idxs, tkind, "none", "sorted", "existing")
                yield ("rt", uni, idxs, tkind, "false", "sorted", "existing")
                if len(idxs) > 1:
                    yield ("rt", uni, idxs, tkind, "false", "sorted", "existing-last")
                    yield ("rt", uni, idxs, tkind, "none", "reversed", "existing-last")
    yield ("schema", "int", [1, 10, 100, -5, 0])
    yield ("schema", "float", [0.5, 1.5, 10.25, -2.0])
    yield ("schema", "str", ["abc", "x_y", "A1"])
    yield ("schema", "default", ["abc", "b2"])
    yield ("schema", "bool", [True, False])


def run(ctx):
    report = Report(LEVEL)
    tot = engine_i.run_items(ctx, universe(ctx.tier), evaluate, chunk=8)
    engine_i.fill_report(report, tot, rule=(
        "every non-empty sub-project (<=4 quick / <=6 thorough jobs) of 9 textually colliding state point universes plus the "
        "empty project x target kinds x 12 path specifications x 2 listing orders: export, then import into an empty project "
        "(and into one that already holds a job); byte snapshots of the whole scratch root around both calls; schema strings "
        "of each field type on hand-made directory layouts. distinct_nontrivial = distinct (universe, size, target, path spec, outcome)"),
        extra={"bounds": {"max_jobs": 4 if ctx.quick else 6, "targets": 3 if ctx.quick else 6, "pathspecs": len(PATHSPECS)}},
        floor_distinct=30)
    report.assumptions += ["an export that raises must leave no job data in its target; an import that raises must leave the "
                           "importing project's workspace unchanged", "transient use of the system temp directory (tar import) "
                           "is not 'writing outside'"]
    return report


def replay(payload, ctx):
    i = payload["input"]
    if i["kind"] == "schema":
        return eval_schema(("schema", i["type"], i["values"]))["viol"]
    if i["kind"] == "schema3":
        return eval_schema3(("schema3", i["origin"]))["viol"]
    return evaluate(("rt", i["universe"], tuple(i["indices"]), i["target"], i["pathspec"], i["order"], i["mode"]))["viol"]
