"""C10 — documents and the cache file are replaced atomically.

Engine S.  For every scenario (job / project document writes of several sizes, whole reset, exit of a
buffered block flushing two documents, update_cache on growing / shrinking / unchanged workspaces):
  crash part   every crash point of the write's file-system trace and torn prefixes of every write call
  error part   every step failed with ENOSPC / EIO (handled errors): the target still parses to old or new
  reader part  one writer process || one reader process, every interleaving (state-cached DFS)
Oracle: each target file is absent-as-before or parses completely to exactly the old or the new
content; any extra file is a temp file next to its target; nothing else differs from the pre-state.
"""
import fnmatch
import gzip
import json
import os
import shutil

from .. import canon, engine_i, scratch
from ..engine_s import controller as C
from ..runner import Report

PROPERTY = "C10"
LEVEL = "model_checking"
ABSENT = "<absent>"
BIG = "0123456789abcdef" * 1300  # ~20 KB, several write calls / not compressible to nothing
SP1, SP2, SP3 = {"a": 1}, {"a": 2}, {"a": 3}
DOC = "signac_job_document.json"
PDOC = "signac_project_document.json"
CACHE = ".signac/statepoint_cache.json.gz"


def jdir(sp):
    return "workspace/" + canon.job_id(sp)


def load_json(p):
    with open(p, "rb") as f:
        return json.loads(f.read().decode())


def load_cache(p):
    with gzip.open(p, "rb") as f:
        return json.loads(f.read().decode())


# ------------------------------------------------------------------ scenarios
def _mk(tpl, jobs=(SP1,), docs=None, pdoc=None, cache_of=None):
    import signac

    os.makedirs(tpl)
    p = signac.init_project(tpl)
    for sp in jobs:
        p.open_job(sp).init()
    for sp, d in (docs or {}).items():
        p.open_job(json.loads(sp)).doc.update(d)
    if pdoc is not None:
        p.doc.update(pdoc)
    if cache_of is not None:
        # a cache file listing exactly `cache_of`
        cache = {canon.job_id(sp): sp for sp in cache_of}
        with gzip.open(os.path.join(tpl, CACHE), "wb") as f:
            f.write(json.dumps(cache).encode())


def scenarios(root):
    import signac

    S = {}

    def jobdoc(name, old, new, setter):
        def setup(tpl):
            _mk(tpl, docs={json.dumps(SP1): old} if old is not None else None)

        def writer(ctx):
            job = signac.Project(root).open_job(SP1)
            C.mark("BEGIN")
            setter(job)
            C.mark("END")

        def reader(ctx):
            job = signac.Project(root).open_job(SP1)
            C.mark("BEGIN")
            v = canon.plain(job.doc())
            C.mark("END")
            return v
        S[name] = dict(setup=setup, writer=writer, reader=reader,
                       targets=[(jdir(SP1) + "/" + DOC, "json", ABSENT if old is None else old, new)],
                       reader_accepts=[{} if old is None else old, new])

    jobdoc("jobdoc-absent-to-small", None, {"x": 1}, lambda job: job.doc.__setitem__("x", 1))
    jobdoc("jobdoc-small-to-small", {"x": 1}, {"x": 1, "y": [1, 2]}, lambda job: job.doc.__setitem__("y", [1, 2]))
    jobdoc("jobdoc-small-to-big", {"x": 1}, {"x": 1, "big": BIG}, lambda job: job.doc.__setitem__("big", BIG))
    jobdoc("jobdoc-big-to-small", {"x": 1, "big": BIG}, {"x": 1}, lambda job: job.doc.__delitem__("big"))
    jobdoc("jobdoc-reset", {"x": 1, "y": 2}, {"z": {"n": 3}}, lambda job: setattr(job, "doc", {"z": {"n": 3}}))
    jobdoc("jobdoc-clear", {"x": 1}, {}, lambda job: job.doc.clear())
    # the same through Job.clear() / Job.reset() on a handle that has not touched its document yet
    jobdoc("job-clear-fresh-handle", {"x": 1, "y": [1, 2]}, {}, lambda job: job.clear())
    jobdoc("job-reset-fresh-handle", {"x": 1}, {}, lambda job: job.reset())
    jobdoc("jobdoc-update-call", {"x": 1}, {"x": 2, "z": {"k": 1}}, lambda job: job.document.update({"x": 2, "z": {"k": 1}}))
    jobdoc("jobdoc-first-access-assignment", {"x": 1}, {"w": 0}, lambda job: setattr(job, "document", {"w": 0}))

    # the new content is the LIVE document object of another job (dst.document = src.document)
    other_doc = {"from": "other", "big": BIG}

    def setup_o(tpl):
        _mk(tpl, jobs=(SP1, SP2), docs={json.dumps(SP1): {"x": 1}, json.dumps(SP2): other_doc})

    def writer_o(ctx):
        p = signac.Project(root)
        j1, j2 = p.open_job(SP1), p.open_job(SP2)
        C.mark("BEGIN")
        j1.document = j2.document
        C.mark("END")
    S["jobdoc-assign-other-jobs-document"] = dict(
        setup=setup_o, writer=writer_o, reader=S["jobdoc-reset"]["reader"],
        targets=[(jdir(SP1) + "/" + DOC, "json", {"x": 1}, other_doc), (jdir(SP2) + "/" + DOC, "json", other_doc, other_doc)],
        reader_accepts=[{"x": 1}, other_doc])

    def setup_p(tpl):
        _mk(tpl, pdoc={"p": 1})

    def writer_p(ctx):
        p = signac.Project(root)
        C.mark("BEGIN")
        p.doc["q"] = "v" * 300
        C.mark("END")

    def reader_p(ctx):
        p = signac.Project(root)
        C.mark("BEGIN")
        v = canon.plain(p.doc())
        C.mark("END")
        return v
    S["projectdoc-update"] = dict(setup=setup_p, writer=writer_p, reader=reader_p,
                                  targets=[(PDOC, "json", {"p": 1}, {"p": 1, "q": "v" * 300})],
                                  reader_accepts=[{"p": 1}, {"p": 1, "q": "v" * 300}])

    def writer_p2(ctx):
        p = signac.Project(root)
        C.mark("BEGIN")
        p.document = {"r": [1, 2]}
        C.mark("END")
    S["projectdoc-first-access-assignment"] = dict(setup=setup_p, writer=writer_p2, reader=reader_p,
                                                   targets=[(PDOC, "json", {"p": 1}, {"r": [1, 2]})],
                                                   reader_accepts=[{"p": 1}, {"r": [1, 2]}])

    def setup_b(tpl):
        _mk(tpl, jobs=(SP1, SP2), docs={json.dumps(SP1): {"x": 0}})

    def writer_b(ctx):
        p = signac.Project(root)
        j1, j2 = p.open_job(SP1), p.open_job(SP2)
        C.mark("BEGIN")
        with signac.buffered():
            j1.doc["x"] = 1
            j2.doc["y"] = 2
            j1.doc["w"] = 3
        C.mark("END")

    def reader_b(ctx):
        p = signac.Project(root)
        C.mark("BEGIN")
        v = [canon.plain(p.open_job(SP1).doc()), canon.plain(p.open_job(SP2).doc())]
        C.mark("END")
        return v
    S["buffered-flush-two-docs"] = dict(
        setup=setup_b, writer=writer_b, reader=reader_b,
        targets=[(jdir(SP1) + "/" + DOC, "json", {"x": 0}, {"x": 1, "w": 3}), (jdir(SP2) + "/" + DOC, "json", ABSENT, {"y": 2})],
        reader_accepts=None, reader_accepts_each=[[{"x": 0}, {"x": 1, "w": 3}], [{}, {"y": 2}]])

    def cache_scn(name, on_disk, listed, expect_write=True):
        def setup(tpl):
            _mk(tpl, jobs=on_disk, cache_of=listed)

        def writer(ctx):
            p = signac.Project(root)
            C.mark("BEGIN")
            p.update_cache()
            C.mark("END")

        def reader(ctx):
            p = signac.Project(root)
            C.mark("BEGIN")
            v = p._read_cache()
            C.mark("END")
            return v
        old = ABSENT if listed is None else {canon.job_id(sp): sp for sp in listed}
        new = {canon.job_id(sp): sp for sp in on_disk}
        S[name] = dict(setup=setup, writer=writer, reader=reader, targets=[(CACHE, "cache", old, new)],
                       reader_accepts=[None if listed is None else old, new])
    cache_scn("cache-first-write", (SP1, SP2), None)
    cache_scn("cache-growing", (SP1, SP2, SP3), (SP1,))
    cache_scn("cache-shrinking", (SP1,), (SP1, SP2, SP3))
    cache_scn("cache-unchanged", (SP1, SP2), (SP1, SP2))
    def cache_stray(name, torn):
        """An earlier update_cache() died and left its temp file behind (complete or torn)."""
        def setup(tpl):
            _mk(tpl, jobs=(SP1, SP2, SP3), cache_of=(SP1,))
            blob = gzip.compress(json.dumps({canon.job_id(SP2): SP2}).encode())
            with open(os.path.join(tpl, CACHE + "~"), "wb") as f:
                f.write(blob[: len(blob) // 2] if torn else blob)
        base = S["cache-growing"]
        S[name] = dict(base, setup=setup)
    big = tuple({"a": i, "pad": BIG[:2000 + i]} for i in range(12))
    cache_scn("cache-many-jobs-multi-buffer", big, big[:2])
    cache_stray("cache-growing-after-crash-stray-complete", False)
    cache_stray("cache-growing-after-crash-stray-torn", True)
    return S


QUICK = ["jobdoc-absent-to-small", "jobdoc-small-to-big", "jobdoc-reset", "job-clear-fresh-handle", "projectdoc-update",
         "projectdoc-first-access-assignment", "buffered-flush-two-docs", "cache-first-write", "cache-growing", "cache-shrinking",
         "cache-unchanged", "cache-growing-after-crash-stray-complete", "cache-growing-after-crash-stray-torn", "jobdoc-assign-other-jobs-document", "cache-many-jobs-multi-buffer"]
# document scenarios that are also run with synced_collections' thread-lock mode switched off: there the library writes a
# file atomically only if the collection was created with write_concern=True (which is what signac must ask for)
NOLOCK = ["jobdoc-absent-to-small", "jobdoc-small-to-big", "jobdoc-reset", "job-clear-fresh-handle", "projectdoc-update",
          "projectdoc-first-access-assignment", "buffered-flush-two-docs"]


# ------------------------------------------------------------------ oracle
def judge(root, scn, pre_tree, what):
    out = []
    targets = scn["targets"]
    tnames = {rel for rel, *_ in targets}
    for rel, kind, old, new in targets:
        p = os.path.join(root, rel)
        if not os.path.exists(p):
            if old != ABSENT:
                out.append(("target-vanished", f"{what}: {rel} is gone (it existed before the write)", {}))
            continue
        try:
            val = load_json(p) if kind == "json" else load_cache(p)
        except Exception as e:  # noqa
            size = os.path.getsize(p)
            out.append(("target-torn-or-unparseable", f"{what}: {rel} ({size} bytes) does not parse: {type(e).__name__}: {e}",
                        {"empty": size == 0}))
            continue
        if not ((old != ABSENT and canon.typed_eq(val, old)) or canon.typed_eq(val, new)):
            out.append(("target-neither-old-nor-new", f"{what}: {rel} holds {str(val)[:200]}", {}))
    # everything else: only temp files next to a target may differ from the pre-state
    now = {r: (k, h) for r, k, h in C.tree_state(root)}
    pre = {r: (k, h) for r, k, h in pre_tree}
    for r in sorted(set(now) | set(pre)):
        if r in tnames or now.get(r) == pre.get(r):
            continue
        d, b = os.path.dirname(r), os.path.basename(r)
        is_temp = any(os.path.dirname(t) == d and (fnmatch.fnmatch(b, "._*_" + os.path.basename(t)) or b == os.path.basename(t) + "~")
                      for t in tnames)
        if is_temp:
            continue  # a stray temp file may appear (crash) or be consumed (left by an earlier crash)
        out.append(("foreign-change", f"{what}: {r} changed from {pre.get(r)} to {now.get(r)}", {}))
    return out


def _nolock(fn):
    def body(ctx):
        import signac
        signac.JSONDict.disable_multithreading()
        return fn(ctx)
    return body


def eval_item(item):
    name, part = item[0], item[1]
    cfg = item[2] if len(item) > 2 else "default"
    viol = []
    n = 0
    nt = set()
    with scratch.fresh("c10") as base:
        root = os.path.join(base, "run")
        tpl = os.path.join(base, "tpl")
        scn = scenarios(root)[name]
        scn["setup"](tpl)
        if cfg == "nolock":
            scn = dict(scn, writer=_nolock(scn["writer"]), reader=_nolock(scn["reader"]))

        def bad(kind, msg, inp, **extra):
            if len(viol) < 6:
                viol.append({"sig": dict(kind=kind, **extra), "scenario": name + ("/" + cfg if cfg != "default" else ""),
                             "input": dict(scenario=name, part=part, config=cfg, **inp), "expected": "old or new content",
                             "observed": msg, "msg": msg})
        if part in ("crash", "fault"):
            trace, outcome, tree, pre_tree = C.record(tpl, root, scn["writer"])
            if outcome[0] != "ok":
                bad("fault-free-run-fails", f"writer failed without any fault: {outcome}", {})
                return {"cls": name, "viol": viol, "n": 1}
            for k, m, e in judge(root, scn, pre_tree, "completed run"):
                bad(k, m, {"crash_before": len(trace)}, **e)
            steps = C.window_steps(trace)
            sig = C.signature(trace)
            if part == "crash":
                for i in steps:
                    decisions = [("C", {"crash_before": i})]
                    if trace[i]["op"] in ("write", "sendfile") and trace[i]["nbytes"] > 1:
                        L = trace[i]["nbytes"]
                        for t in sorted({1, L // 2, L - 1}):
                            decisions.append((f"T {t}", {"torn": [i, t]}))
                    for dec, inp in decisions:
                        n += 1
                        _, out, _, _ = C.run_with(tpl, root, scn["writer"], trace, {i: dec})
                        nt.add((trace[i]["op"], dec[0]))
                        for k, m, e in judge(root, scn, pre_tree, f"process death at step {i} ({trace[i]['op']} "
                                                                f"{trace[i]['path']}, decision {dec})"):
                            bad(k, m, dict(inp, trace=[list(x) for x in sig]), step_op=trace[i]["op"], **e)
            else:
                for i in steps:
                    for en in ("ENOSPC", "EIO"):
                        n += 1
                        _, out, _, _ = C.run_with(tpl, root, scn["writer"], trace, {i: f"F {C.ERRNOS[en]}"})
                        nt.add((trace[i]["op"], en, out[0]))
                        for k, m, e in judge(root, scn, pre_tree, f"{en} at step {i} ({trace[i]['op']} {trace[i]['path']})"):
                            if k == "foreign-change":
                                continue  # whether a temp file is cleaned up is not judged here
                            bad(k, m, {"fail": [[i, en]], "trace": [list(x) for x in sig]}, step_op=trace[i]["op"], errno=en, **e)
        else:
            def on_leaf(ex, sched):
                w, r = ex.actors
                s = "".join("WR"[x] for x in sched)
                if w.outcome[0] != "ok":
                    bad("writer-fails-under-concurrency", f"schedule {s}: writer outcome {w.outcome[:3]}", {"schedule": s})
                if r.outcome[0] != "ok":
                    bad("reader-raises", f"schedule {s}: reader raised {r.outcome[1]}: {r.outcome[2]}", {"schedule": s},
                        exc=r.outcome[1])
                    return
                val = r.outcome[1]
                if scn.get("reader_accepts") is not None:
                    ok = any(canon.typed_eq(val, a) if a is not None else val is None for a in scn["reader_accepts"])
                else:
                    ok = all(any(canon.typed_eq(v, a) for a in acc) for v, acc in zip(val, scn["reader_accepts_each"]))
                if not ok:
                    bad("reader-sees-neither-old-nor-new", f"schedule {s}: reader got {str(val)[:200]}", {"schedule": s})
            st = C.interleave(tpl, root, [scn["writer"], scn["reader"]], on_leaf=on_leaf)
            n += st["executions"]
            nt.add(("interleave", st["states"], st["leaves"]))
            return {"cls": name, "viol": viol, "n": n, "nt": sorted(map(str, nt)), "nt_many": True,
                    "stats": st, "sample": {"scenario": name, "part": part, "states": st["states"],
                                            "schedules": st["sample_schedules"]}}
    return {"cls": name, "viol": viol, "n": n, "nt": sorted(map(str, nt)), "nt_many": True,
            "sample": {"scenario": name, "part": part, "executions": n}}


_STATS = {}


def evaluate(item):
    o = eval_item(item)
    return o


def universe(tier):
    names = QUICK if tier == "quick" else sorted(scenarios("/nonexistent"))
    for name in names:
        for part in ("crash", "fault", "reader"):
            yield (name, part, "default")
    for name in NOLOCK:
        for part in (("crash", "reader") if tier == "quick" else ("crash", "fault", "reader")):
            yield (name, part, "nolock")


def run(ctx):
    C.ensure_preloaded()
    report = Report(LEVEL)
    items = list(universe(ctx.tier))
    tot = engine_i.run_items(ctx, iter(items), evaluate, chunk=1)
    # the interleaving statistics are recomputed deterministically per item; collect them from a serial pass of samples
    engine_i.fill_report(report, tot, rule=(
        "per scenario: record the writer's file-system trace through the libc shim; crash before every mutating call of "
        "the write window and torn prefixes {1, L/2, L-1} of every write; every step failed with ENOSPC and EIO; writer || "
        "reader explored by DFS over all schedules with state caching. distinct_nontrivial = distinct (call kind, decision) "
        "pairs and interleaving state counts"), floor_distinct=5)
    cov = report.coverage
    cov["states"] = sum(int(s.split(",")[1]) for s in map(str, tot.nt) if s.startswith("('interleave'"))
    cov["transitions"] = cov["evaluations"]
    cov["traces_validated_against_impl"] = cov["evaluations"]
    cov["bounds"] = {"scenarios": len({i[0] for i in items}), "configurations": "default + thread-lock mode off for document scenarios", "actors": 2, "preemption_bound": "none (exhaustive for 2 actors)",
                     "torn_prefixes": "1, L/2, L-1"}
    report.assumptions += ["process-crash semantics: the page cache survives, crash states are prefixes of the call trace "
                           "(power-loss reordering is not modelled)",
                           "single calls (rename, open(O_TRUNC), write) are atomic with respect to other processes",
                           "actors are deterministic functions of what their calls observe (uuid temp names and thread pools "
                           "are replaced in the children); mtimes are not part of an observation"]
    return report


def replay(payload, ctx):
    C.ensure_preloaded()
    inp = payload["input"]
    return eval_item((inp["scenario"], inp["part"], inp.get("config", "default")))["viol"]
