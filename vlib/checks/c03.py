"""C03 — the workspace equals a simple model after any history of API operations.

Engine H: breadth-first search over histories of public operations on two projects with several
live handles per job (opened by state point, copy.copy, deepcopy, pickle round trip in-process and,
in thorough, through a freshly started process), de-duplicated by canonical state (disk trees +
digest of the live objects).  After every step: ids / state points / documents / file trees seen
through FRESH handles equal the model, check() passes, directory names hash their state point
file, len == iteration == membership, decoy directories are not jobs, no temp/backup files.
"""
import os

from .. import engine_h, scratch
from ..runner import Report
from ..world import Unexpected, World

PROPERTY = "C03"
LEVEL = "model_checking"
_ALPHABET = {}
_SALT = 0

FULL = {"open": True, "copy": True, "copy2": True, "deep": True, "pickle": True, "doc": True, "files": True, "files2": True,
        "rekey": True, "move": True, "reopen": True, "cache": True, "newproject": True,
        "decoys": ("bak", "hex31", "hex33", "tmp")}
# closed sub-universe explored deeper: 2 state points, 1 file, 1 doc key, 2 slots per job
CLOSED = {"open": True, "copy": True, "deep": False, "pickle": False, "doc": True, "files": True, "files2": False,
          "rekey": True, "move": True, "reopen": True, "cache": False, "newproject": False, "decoys": (),
          "assign_typed": False}


def execute(hist):
    viol = []
    expected_failure = False
    with scratch.fresh("c03") as root:
        w = World(root, salt=_SALT)

        def bad(kind, msg, **extra):
            viol.append({"sig": dict(kind=kind, **extra), "scenario": _ALPHABET.get("_name", "full"),
                         "input": {"history": [list(o) for o in hist], "alphabet": _ALPHABET.get("_name", "full"),
                                   "salt": _SALT},
                         "expected": "model", "observed": msg, "msg": msg})
        for k, op in enumerate(hist):
            last = k == len(hist) - 1
            try:
                ef = w.apply(tuple(op))
                if last:
                    expected_failure = ef
            except Unexpected as e:
                if not last:
                    raise RuntimeError(f"prefix of a clean history failed on replay: {op}: {e}")
                bad(e.kind, str(e), **e.extra)
        key = w.key()  # before the observations below (they may instantiate lazy fields)
        enabled = [list(o) for o in w.enabled(_ALPHABET)]
        n = w.ncalls
        if not viol:
            for kind, msg, extra in w.check() + w.check_handles():
                bad(kind, f"after {list(hist[-1]) if hist else 'init'}: {msg}", **extra)
    return {"key": key, "enabled": enabled, "viol": viol, "n": n, "cls": hist[-1][0] if hist else "init",
            "expected_failure": expected_failure}


def _exec(hist):
    return execute(tuple(tuple(o) for o in hist))


def run(ctx):
    global _ALPHABET, _SALT
    report = Report(LEVEL)
    _SALT = ctx.seed
    full = dict(FULL, _name="full")
    if not ctx.quick:
        full["pickle_proc"] = True
    _ALPHABET = full
    st = engine_h.explore(ctx, _exec, max_depth=3 if ctx.quick else 4, chunk=16)
    engine_h.fill_report(report, st)
    _ALPHABET = dict(CLOSED, _name="closed")
    st2 = engine_h.explore(ctx, _exec, max_depth=5 if ctx.quick else 6, chunk=16)
    engine_h.fill_report(report, st2, extra={
        "bounds": {"full_alphabet_depth": 3 if ctx.quick else 4, "closed_subuniverse_depth": 5 if ctx.quick else 6,
                   "projects": 2, "handle_slots_per_job": 4 if ctx.quick else 5},
        "rule": "BFS over histories of real API calls; state = sha1(disk trees of both projects, digest of every live "
                "Job/Project object incl. sharing of state point objects); successors only of new states",
        "exhaustive": True,
    })
    # start from a populated state too: both jobs initialised with payload and a shallow copy each
    _ALPHABET = dict(CLOSED, _name="closed")
    root = (("open", "A", 0), ("write", "A", "f1"), ("copy", "A", "Ac"), ("copy", "A", "Ae"), ("open", "B", 1), ("init", "B"))
    st3 = engine_h.explore(ctx, _exec, max_depth=3 if ctx.quick else 4, chunk=16, root=root)
    engine_h.fill_report(report, st3)
    report.coverage["bounds"]["rooted_closed_depth_beyond_root"] = 3 if ctx.quick else 4
    report.assumptions += [
        "a handle whose job directory disappeared through another handle (remove / re-key) is offered only its own init() "
        "and remove(), after which it is current again; handles after a move through another handle or a failed re-key on "
        "the handle itself are not used again",
        "observation is always through fresh Project objects plus a raw os.walk",
    ]
    return report


def replay(payload, ctx):
    global _ALPHABET, _SALT
    _SALT = payload["input"].get("salt", 0)
    _ALPHABET = dict(FULL if payload["input"].get("alphabet") != "closed" else CLOSED, pickle_proc=True)
    return _exec(payload["input"]["history"])["viol"]
