"""Shared universe, executor and oracles of the sync properties C13, C14, C15.

A project pair is built from *job-pair shapes* (what the job looks like on either side) plus a
project-document shape.  One case = (shapes, project doc shape, options, entry point).  The executor
runs the call between byte snapshots of both projects and evaluates every clause of the three
properties; each violation carries the property it belongs to.
"""
import itertools
import json
import os
import re
import shutil

from .. import canon, env, scratch

SPF = "signac_statepoint.json"
DOCF = "signac_job_document.json"
PDOCF = "signac_project_document.json"
T0 = 1_600_000_000  # base mtime (seconds)


def F(content, dt=0):
    """file spec: content + mtime offset"""
    return (content, dt)


# job-pair shapes: side -> {"files": {rel: (content, dt)}, "doc": {...} | None}; side missing = job absent there
SHAPES = {
    "src-only": {"src": {"files": {"f.txt": F("S"), "sub/g.txt": F("SG"), "skip.log": F("SL"), "noskip.log": F("NS"),
                                   "sub/unskip.dat": F("US"), "sub/skip.x": F("SX")}, "doc": {"a": 1}}},
    "dst-only": {"dst": {"files": {"keep.txt": F("D")}, "doc": {"d": 1}}},
    "identical": {"src": {"files": {"f.txt": F("same")}, "doc": {"a": 1}}, "dst": {"files": {"f.txt": F("same")}, "doc": {"a": 1}}},
    "src-new-files": {"src": {"files": {"new.txt": F("N"), "sd/x.txt": F("NX"), "skip.log": F("SL"), "noskip.log": F("NS"),
                                        "skip.d/inner.txt": F("SI")}, "doc": None},
                      "dst": {"files": {"old.txt": F("O")}, "doc": None}},
    "dst-extra": {"src": {"files": {"f.txt": F("same")}, "doc": {"a": 1}},
                  "dst": {"files": {"f.txt": F("same"), "keep.txt": F("D"), "kd/k.txt": F("DK")}, "doc": {"a": 1, "donly": [1, 2]}}},
    "diff-samesize-older": {"src": {"files": {"c.txt": F("AAAA", -100)}, "doc": None}, "dst": {"files": {"c.txt": F("BBBB", 0)}, "doc": None}},
    "diff-samesize-equal": {"src": {"files": {"c.txt": F("AAAA", 0)}, "doc": None}, "dst": {"files": {"c.txt": F("BBBB", 0)}, "doc": None}},
    "diff-samesize-newer": {"src": {"files": {"c.txt": F("AAAA", 100)}, "doc": None}, "dst": {"files": {"c.txt": F("BBBB", 0)}, "doc": None}},
    "diff-size-older": {"src": {"files": {"c.txt": F("AAAAAA", -100)}, "doc": None}, "dst": {"files": {"c.txt": F("BB", 0)}, "doc": None}},
    "diff-size-equal": {"src": {"files": {"c.txt": F("AAAAAA", 0)}, "doc": None}, "dst": {"files": {"c.txt": F("BB", 0)}, "doc": None}},
    "diff-size-newer": {"src": {"files": {"c.txt": F("AAAAAA", 100)}, "doc": None}, "dst": {"files": {"c.txt": F("BB", 0)}, "doc": None}},
    "diff-nested-newer": {"src": {"files": {"sub/c.txt": F("AAAAAA", 100), "sub/only.txt": F("SO"), "sub/skip.y": F("SY"),
                                            "sub/deep/new2.txt": F("N2"), "sub/deep/deeper/new3.txt": F("N3"), "sub/srconly/x.txt": F("SX")},
                                  "doc": None},
                          "dst": {"files": {"sub/c.txt": F("BB", 0), "sub/deep/old.txt": F("O2"), "sub/deep/deeper/old.txt": F("O3")}, "doc": None}},
    "diff-nested-samesize-equal": {"src": {"files": {"sub/c.txt": F("AAAA", 0), "sub/deeper/c.txt": F("CCCC", 0)}, "doc": None},
                                   "dst": {"files": {"sub/c.txt": F("BBBB", 0), "sub/deeper/c.txt": F("DDDD", 0)}, "doc": None}},
    "diff-nested-older": {"src": {"files": {"sub/c.txt": F("AAAAAA", -100)}, "doc": None}, "dst": {"files": {"sub/c.txt": F("BB", 0)}, "doc": None}},
    # equal size and mtime, first difference beyond the first 8 KiB / in the last partial block
    "diff-samesize-equal-big-tail": {"src": {"files": {"c.txt": F("A" * 9000 + "X" + "A" * 999, 0)}, "doc": None},
                                     "dst": {"files": {"c.txt": F("A" * 9000 + "Y" + "A" * 999, 0)}, "doc": None}},
    "diff-excluded-name": {"src": {"files": {"skip.log": F("AAAAAA", 100), "ok.txt": F("same")}, "doc": None},
                           "dst": {"files": {"skip.log": F("BB", 0), "ok.txt": F("same")}, "doc": None}},
    "doc-disjoint": {"src": {"files": {}, "doc": {"a": 1}}, "dst": {"files": {}, "doc": {"b": 2}}},
    "doc-overlap-equal": {"src": {"files": {}, "doc": {"a": 1, "b": 2}}, "dst": {"files": {}, "doc": {"a": 1}}},
    "doc-flat-conflict": {"src": {"files": {}, "doc": {"a": 1, "n": 5, "w": 1}}, "dst": {"files": {}, "doc": {"a": 2, "z": 0, "w": 2}}},
    "doc-nested-conflict": {"src": {"files": {}, "doc": {"n": {"x": 1, "y": 2}, "first": 1, "w": 3}}, "dst": {"files": {}, "doc": {"n": {"x": 9}}}},
    "doc-single-key-conflict": {"src": {"files": {}, "doc": {"a": 1, "b": 2}}, "dst": {"files": {}, "doc": {"a": 2}}},
    "doc-deep-conflict": {"src": {"files": {}, "doc": {"p": {"q": {"r": 1, "s": 1}}}}, "dst": {"files": {}, "doc": {"p": {"q": {"r": 2}}}}},
    "doc-none-conflict": {"src": {"files": {}, "doc": {"a": 5, "n": {"x": 1}, "z": 1}},
                          "dst": {"files": {}, "doc": {"a": None, "n": {"x": None}, "z": None}}},
    "doc-conflict-stale-backup": {"src": {"files": {}, "doc": {"a": 1, "n": 5}},
                                  "dst": {"files": {DOCF + "~": F('{"a": 2}')}, "doc": {"a": 2, "z": 0}}},
    "diff-size-newer-subsecond": {"src": {"files": {"c.txt": F("AAAAAA", 0.75)}, "doc": None}, "dst": {"files": {"c.txt": F("BB", 0.25)}, "doc": None}},
    "diff-size-older-subsecond": {"src": {"files": {"c.txt": F("AAAAAA", 0.25)}, "doc": None}, "dst": {"files": {"c.txt": F("BB", 0.75)}, "doc": None}},
    "doc-nested-dst-only": {"src": {"files": {}, "doc": {"p": {"q": 1}, "n": {"x": 1}}},
                            "dst": {"files": {}, "doc": {"p": {"q": 2, "keep": 7}, "n": {"x": 9, "keepn": [1]}, "top": 0}}},
    "doc-mixed-type": {"src": {"files": {}, "doc": {"m": {"x": 1}, "k": 1}}, "dst": {"files": {}, "doc": {"m": 5}}},
    "doc-src-empty": {"src": {"files": {"f.txt": F("same")}, "doc": None}, "dst": {"files": {"f.txt": F("same")}, "doc": {"b": 2}}},
    # a chain of common directories whose upper levels have nothing to copy or resolve themselves
    "nested-quiet-chain": {"src": {"files": {"a/same.txt": F("same"), "a/b/same2.txt": F("same2"), "a/b/c/new.txt": F("N"),
                                             "a/b/c/d/new2.txt": F("N2"), "a/b/c/same3.txt": F("same3")}, "doc": None},
                           "dst": {"files": {"a/same.txt": F("same"), "a/b/same2.txt": F("same2"), "a/b/c/same3.txt": F("same3")},
                                   "doc": None}},
    "doc-dst-empty": {"src": {"files": {}, "doc": {"a": {"b": 1}}}, "dst": {"files": {}, "doc": None}},
}
SHAPE_NAMES = list(SHAPES)
PDOCS = {"none": (None, None), "equal": ({"p": 1}, {"p": 1}), "disjoint": ({"p": 1}, {"q": 2}), "conflict": ({"p": 1}, {"p": 2})}

STRATEGIES = ["none", "always", "never", "update", "custom", "custom-none"]
DOCSYNCS = ["default", "bykey-fn", "bykey-regex", "update", "nosync", "copy"]
EXCLUDE = r"skip\..*"


def key_selected(kind, dotted):
    """The reference verdict of the key strategies used in the universe."""
    if kind == "bykey-fn":
        return dotted in ("a", "n.x", "p.q.r", "p")
    if kind == "bykey-regex":
        return re.match(r"(a|n\.x|p\.q\.r)$", dotted) is not None
    return False


def make_strategy(name):
    from signac.sync import FileSync

    if name == "none":
        return None
    if name == "custom":
        return lambda src, dst, fn: fn.endswith("c.txt") and "sub" not in fn
    if name == "custom-none":
        # a predicate whose "no" is None (a function falling off its end, a dict.get miss, a failed re.match)
        return lambda src, dst, fn: True if (fn.endswith("c.txt") and "sub" not in fn) else None
    return getattr(FileSync, name)


def make_docsync(name):
    from signac.sync import DocSync

    if name == "default":
        return None
    if name == "bykey-fn":
        return DocSync.ByKey(lambda k: key_selected("bykey-fn", k))
    if name == "bykey-regex":
        return DocSync.ByKey(r"(a|n\.x|p\.q\.r)$")
    if name == "update":
        return DocSync.update
    if name == "nosync":
        return DocSync.NO_SYNC
    return DocSync.COPY


def build(root, shapes, pdoc):
    """Create projects src/ and dst/ under root. Returns {index: job id}."""
    import signac

    ids = {}
    ps, pd = os.path.join(root, "src"), os.path.join(root, "dst")
    os.makedirs(ps)
    os.makedirs(pd)
    S, D = signac.init_project(ps), signac.init_project(pd)
    for i, name in enumerate(shapes):
        sp = {"j": i}
        ids[i] = canon.job_id(sp)
        for side, proj in (("src", S), ("dst", D)):
            spec = SHAPES[name].get(side)
            if spec is None:
                continue
            job = proj.open_job(sp).init()
            for rel, (content, dt) in spec["files"].items():
                p = job.fn(rel)
                os.makedirs(os.path.dirname(p), exist_ok=True)
                with open(p, "w") as f:
                    f.write(content)
                os.utime(p, (T0 + dt, T0 + dt))
            if spec["doc"] is not None:
                job.doc.update(spec["doc"])
                os.utime(job.fn(DOCF), (T0, T0))
    sdoc, ddoc = PDOCS[pdoc]
    if sdoc is not None:
        S.doc.update(sdoc)
    if ddoc is not None:
        D.doc.update(ddoc)
    return ids


def snap(p):
    s = canon.snapshot(p)
    return {k: v for k, v in s.items() if not k.startswith(".signac")}


def flat(doc, prefix=""):
    out = {}
    for k, v in (doc or {}).items():
        if isinstance(v, dict) and v:
            out.update(flat(v, prefix + k + "."))
        else:
            out[prefix + k] = v
    return out


def read_doc(proj_path, jid=None):
    fn = os.path.join(proj_path, PDOCF) if jid is None else os.path.join(proj_path, "workspace", jid, DOCF)
    try:
        with open(fn, "rb") as f:
            return json.loads(f.read().decode())
    except FileNotFoundError:
        return None


def call(root, ids, opts, entry, projects=None):
    """Perform the sync described by opts through the given entry point. Returns outcome class string."""
    import filecmp

    import signac
    from signac import sync as ssync

    filecmp.clear_cache()
    S, D = projects or (signac.Project(os.path.join(root, "src")), signac.Project(os.path.join(root, "dst")))
    call.last_projects = (S, D)
    # arguments that have their default value are NOT passed (the defaults are part of the interface under test)
    kw = dict(recursive=opts["recursive"])
    if opts["strategy"] != "none":
        kw["strategy"] = make_strategy(opts["strategy"])
    if opts["doc_sync"] != "default":
        kw["doc_sync"] = make_docsync(opts["doc_sync"])
    if opts["exclude"]:
        kw["exclude"] = [EXCLUDE] if opts["exclude"] == "list" else EXCLUDE
    for k in ("deep", "dry_run"):
        if opts.get(k):
            kw[k] = True
    try:
        if entry in ("Project.sync", "sync_projects"):
            kw["check_schema"] = opts["check_schema"]
            if opts.get("parallel"):
                kw["parallel"] = opts["parallel"]
            sel = opts["selection"]
            if sel is not None:
                idxs = sel["indices"]
                if sel["form"] == "id-prefixes":
                    kw["selection"] = [ids[i][:12] for i in idxs]  # not ids: nothing is selected by them
                else:
                    kw["selection"] = [ids[i] for i in idxs] if sel["form"] == "ids" else [S.open_job({"j": i}) for i in idxs]
            if entry == "Project.sync":
                D.sync(S, **kw)
            else:
                ssync.sync_projects(S, D, **kw)
        else:
            i = opts["job_index"]
            sj, dj = S.open_job({"j": i}), D.open_job({"j": i})
            if entry == "Job.sync":
                dj.sync(sj, **kw)
            else:
                ssync.sync_jobs(sj, dj, **kw)
        return "ok", None
    except Exception as e:  # noqa
        return type(e).__name__, str(e)[:300]


def shallow_same(sa, sb):
    """filecmp's shallow verdict from (size, mtime) signatures"""
    return sa == sb


PRIORS = ("job-default", "jobs-list-exclude", "job-bykey-declined", "projects-copy")


def prior_call(kind):
    """An unrelated, earlier synchronization in the same process (other projects, other options): whatever it leaves behind
    in module- or class-level state must not influence the call under test."""
    import signac
    from signac import sync as ssync
    from signac.sync import DocSync, FileSync

    with scratch.fresh("syncprior") as root:
        S, D = signac.init_project(os.path.join(root, "s")), signac.init_project(os.path.join(root, "d"))
        for P, tag in ((S, "s"), (D, "d")):
            for i in (0, 1):
                j = P.open_job({"prior": i}).init()
                j.doc.update({"a": tag, "w": tag + str(i), "only_" + tag: 1, "n": {"x": tag}})
                with open(j.fn("c.txt"), "w") as f:
                    f.write(tag * (3 + i))
                with open(j.fn("skip.log"), "w") as f:
                    f.write(tag)
        sj, dj = S.open_job({"prior": 0}), D.open_job({"prior": 0})
        try:
            if kind == "job-default":
                dj.sync(sj)
            elif kind == "jobs-list-exclude":
                ssync.sync_jobs(sj, dj, strategy=FileSync.always, exclude=[EXCLUDE], doc_sync=DocSync.update)
            elif kind == "job-bykey-declined":
                dj.sync(sj, strategy=FileSync.always, doc_sync=DocSync.ByKey(lambda k: k == "a"))
            elif kind == "projects-copy":
                D.sync(S, strategy=FileSync.always, doc_sync=DocSync.COPY, exclude=EXCLUDE)
        except Exception:  # noqa  (conflicts are the expected outcome of some of these)
            pass


def prior_cases(tier):
    for prior in PRIORS:
        for name in ("doc-flat-conflict", "diff-excluded-name", "doc-nested-dst-only", "diff-size-newer"):
            for ds in ("copy", "default", "bykey-fn", "update"):
                for entry in ("Job.sync", "sync_jobs", "Project.sync", "sync_projects"):
                    for ex in (False, "list"):
                        if tier == "quick" and ex and entry in ("sync_jobs", "Project.sync"):
                            continue
                        o = base_opts(strategy="always", doc_sync=ds, recursive=True, exclude=ex, prior=prior)
                        if entry in ("Job.sync", "sync_jobs"):
                            o["job_index"] = 0
                        yield ((name,), "none", o, entry)


def evaluate_case(case):
    """case = (shapes tuple, pdoc, opts dict, entry). Returns (violations, outcome, n_calls)."""
    shapes, pdoc, opts, entry = case
    if opts.get("prior"):
        prior_call(opts["prior"])
    viol = []
    inp = {"shapes": list(shapes), "pdoc": pdoc, "opts": opts, "entry": entry}

    def bad(prop, kind, msg, **extra):
        viol.append({"prop": prop, "sig": dict(kind=kind, **extra), "scenario": entry, "input": inp,
                     "expected": "see message", "observed": msg, "msg": msg})
        if prop == "C14" and opts.get("deep") and kind in ("conflict-not-reported", "strategy-verdict-not-honoured",
                                                            "conflicting-file-overwritten-without-strategy"):
            # "deep=True compares by content at job and project level" is a clause of C15 as well
            viol.append({"prop": "C15", "sig": dict(kind="deep-not-honoured", via=kind), "scenario": entry, "input": inp,
                         "expected": "see message", "observed": msg, "msg": msg})
    with scratch.fresh("sync") as root:
        with env.listing_order(opts.get("order", "sorted")):
            ids = build(root, shapes, pdoc)
            ps, pd = os.path.join(root, "src"), os.path.join(root, "dst")
            if opts.get("dst_stray_dir"):
                # the destination job's directory exists already, but signac did not create it (no state point file)
                os.makedirs(os.path.join(pd, "workspace", ids[opts["job_index"]], "inputs"))
            if opts.get("funny_entries"):
                # entries of mixed type (regular file in the source job, directory in the destination job) next to
                # every file the two jobs share: `dircmp` files them under common_funny and the sync leaves them alone
                for i, name in enumerate(shapes):
                    sh = SHAPES[name]
                    if "src" not in sh or "dst" not in sh:
                        continue
                    dirs = {os.path.dirname(rel) for rel in sh["src"]["files"] if rel in sh["dst"]["files"]} | {""}
                    for d in sorted(dirs):
                        sp_, dp_ = (os.path.join(x, "workspace", ids[i], d, "mixed.dat") for x in (ps, pd))
                        with open(sp_, "w") as f:
                            f.write("MF")
                        os.utime(sp_, (T0, T0))
                        os.makedirs(dp_)
                        with open(os.path.join(dp_, "keep.txt"), "w") as f:
                            f.write("MK")
                        os.utime(os.path.join(dp_, "keep.txt"), (T0, T0))
            job_level = entry in ("Job.sync", "sync_jobs")
            before_s, before_d = snap(ps), snap(pd)
            sig_s = {k: (os.stat(os.path.join(ps, k)).st_size, os.stat(os.path.join(ps, k)).st_mtime)
                     for k, v in before_s.items() if v[0] == "f"}
            sig_d = {k: (os.stat(os.path.join(pd, k)).st_size, os.stat(os.path.join(pd, k)).st_mtime)
                     for k, v in before_d.items() if v[0] == "f"}
            docs_before = {i: read_doc(pd, ids[i]) for i in ids}
            pdoc_before = read_doc(pd)
            outcome, detail = call(root, ids, opts, entry)
            after_s, after_d = snap(ps), snap(pd)
            ncalls = 1
            dry = bool(opts.get("dry_run"))

            # ---- which jobs are in scope
            if job_level:
                scope = [opts["job_index"]]
            elif opts["selection"] is not None:
                scope = [] if opts["selection"]["form"] == "id-prefixes" else list(opts["selection"]["indices"])
            else:
                scope = [i for i, n in enumerate(shapes) if "src" in SHAPES[n]]
            scope = [i for i in scope if "src" in SHAPES[shapes[i]]]

            # ---- E1: the source is never modified
            if after_s != before_s:
                bad("C13", "source-modified", f"source project changed: {canon.snap_diff(before_s, after_s)[:5]}", dry_run=dry)

            # ---- expected conflicts (for outcome classification)
            copy_docs = opts["doc_sync"] == "copy"
            excl = re.compile(EXCLUDE) if opts["exclude"] else None

            def excluded(rel):
                return excl is not None and any(excl.match(part) for part in rel.split("/"))

            def common_files(i):
                """relative paths of regular files present on both sides of job i that take part in the file sync"""
                pref = f"workspace/{ids[i]}/"
                out = []
                for k, v in before_s.items():
                    if k.startswith(pref) and v[0] == "f" and k in before_d and before_d[k][0] == "f":
                        rel = k[len(pref):]
                        if rel == SPF or (rel == DOCF and not copy_docs):
                            continue
                        out.append(rel)
                return sorted(out)

            file_conflicts, doc_conflicts = [], []
            for i in scope:
                sh = SHAPES[shapes[i]]
                if "dst" not in sh:
                    continue
                for rel in common_files(i):
                    k = f"workspace/{ids[i]}/{rel}"
                    if before_s[k] == before_d[k]:
                        continue
                    nested = "/" in rel
                    if nested and not opts["recursive"]:
                        continue
                    if excluded(rel):
                        continue
                    # without deep the documented quick check treats equal (size, mtime) as equal; project-level
                    # deep must reach the job level too
                    if not opts.get("deep") and shallow_same(sig_s[k], sig_d[k]):
                        continue
                    file_conflicts.append((i, rel))
                if opts["doc_sync"] in ("default", "bykey-fn", "bykey-regex"):
                    fs, fd = flat(sh["src"]["doc"]), flat(sh["dst"]["doc"])
                    for k in fs:
                        if k in fd and fs[k] != fd[k]:
                            doc_conflicts.append((i, k))
            sdoc, ddoc = PDOCS[pdoc]
            pdoc_conflict = (not job_level and opts["doc_sync"] in ("default", "bykey-fn", "bykey-regex")
                             and sdoc and ddoc and any(k in ddoc and ddoc[k] != v for k, v in sdoc.items()))

            def strategy_verdict(i, rel):
                st = opts["strategy"]
                if st == "always":
                    return True
                if st == "never":
                    return False
                if st == "update":
                    k = f"workspace/{ids[i]}/{rel}"
                    return sig_s[k][1] > sig_d[k][1]
                if st in ("custom", "custom-none"):
                    return rel.endswith("c.txt") and "sub" not in rel
                return None

            expected_exc = set()
            if file_conflicts and opts["strategy"] == "none":
                expected_exc.add("FileSyncConflict")
            unresolved_doc = [(i, k) for i, k in doc_conflicts if opts["doc_sync"] == "default"]
            if unresolved_doc or (pdoc_conflict and opts["doc_sync"] == "default"):
                expected_exc.add("DocumentSyncConflict")
            mixed = any("doc-mixed-type" == shapes[i] for i in scope) and opts["doc_sync"] in ("default", "bykey-fn", "bykey-regex")
            schema_risk = (not job_level) and opts.get("check_schema")

            # ---- outcome class
            anomalies = []
            if outcome == "ok":
                if expected_exc and not dry:
                    bad("C14", "conflict-not-reported", f"call returned although unresolved conflicts exist: files {file_conflicts}, "
                        f"doc keys {unresolved_doc}, project doc {bool(pdoc_conflict)}", expected="/".join(sorted(expected_exc)),
                        deep=bool(opts.get("deep")), level="job" if job_level else "project")
                elif expected_exc and dry:
                    bad("C15", "dry-run-misses-conflict", f"dry run returned although a real run reports {sorted(expected_exc)}",
                        expected="/".join(sorted(expected_exc)))
            elif outcome in ("FileSyncConflict", "DocumentSyncConflict"):
                if outcome not in expected_exc:
                    bad("C14", "spurious-conflict", f"{outcome}({detail}) raised, expected conflicts: {sorted(expected_exc)} "
                        f"(file conflicts {file_conflicts}, doc conflicts {doc_conflicts})", outcome=outcome, dry_run=dry)
            elif outcome == "SchemaSyncConflict":
                if not schema_risk:
                    bad("C13", "unexpected-exception", f"SchemaSyncConflict although check_schema is off / job level", outcome=outcome)
                # a synchronization refused for its schemas has not started: nothing in the destination may differ
                if after_d != before_d:
                    bad("C13", "refused-sync-modified-destination", f"SchemaSyncConflict was raised but the destination changed: "
                        f"{canon.snap_diff(before_d, after_d)[:5]}", project_document=any(
                            x[0] == "signac_project_document.json" for x in canon.snap_diff(before_d, after_d)))
            elif outcome == "RuntimeError" and any(shapes[i] == "doc-conflict-stale-backup" for i in scope) and \
                    opts["doc_sync"] not in ("nosync", "copy"):
                anomalies.append("RuntimeError: a stale document backup of an earlier, killed sync exists")
            else:
                if mixed and outcome == "TypeError":
                    anomalies.append("TypeError on mapping-vs-scalar merge")
                else:
                    bad("C15" if dry else "C13", "unexpected-exception", f"{outcome}: {detail}", outcome=outcome, dry_run=dry)

            # ---- E6: dry run changes nothing at all
            if dry and after_d != before_d:
                d = canon.snap_diff(before_d, after_d)
                bad("C15", "dry-run-modifies-destination", f"dry run changed the destination: {d[:6]}",
                    only_directories=all((x[2] or x[1])[0] == "d" for x in d),
                    document_changed=any(x[0].endswith(".json") for x in d))

            # ---- destination-only data is never touched (E2), unselected / excluded never created or modified (E7, E8)
            def dst_rel(i, rel=""):
                return f"workspace/{ids[i]}" + ("/" + rel if rel else "")
            for i, name in enumerate(shapes):
                sh = SHAPES[name]
                in_scope = i in scope
                for k in set(before_d) | set(after_d):
                    if not (k == dst_rel(i) or k.startswith(dst_rel(i) + "/")):
                        continue
                    if before_d.get(k) == after_d.get(k):
                        continue
                    rel = k[len(dst_rel(i)) + 1:]
                    if not in_scope:
                        bad("C15", "unselected-job-touched", f"job {i} ({name}) is outside the selection but {k} changed "
                            f"{before_d.get(k)} -> {after_d.get(k)}")
                    elif rel and excluded(rel) and not (copy_docs and rel == DOCF):
                        bad("C15", "excluded-file-touched", f"{k} matches the exclude pattern but changed "
                            f"{before_d.get(k)} -> {after_d.get(k)}", newly_cloned="dst" not in sh)
                    elif "dst" in sh and rel in sh["dst"]["files"] and rel not in sh["src"]["files"]:
                        bad("C13", "destination-only-file-changed", f"{k} exists only in the destination but changed")
                    elif rel == SPF and "dst" in sh:
                        bad("C13", "state-point-file-touched", f"{k} changed")
                # documents
                if "dst" in sh and not copy_docs:
                    dnow = read_doc(pd, ids[i])
                    dold = docs_before[i]
                    fo, fn_ = flat(dold), flat(dnow)
                    fsrc = flat(sh["src"]["doc"]) if "src" in sh else {}
                    if opts["doc_sync"] == "update":
                        src_top = set((sh.get("src", {}).get("doc") or {}).keys())
                        changed_dst_only = [k for k in (dold or {}) if k not in src_top and (dnow or {}).get(k) != dold[k]]
                    else:
                        changed_dst_only = [k for k in fo if k not in fsrc and not any(s == k or s.startswith(k + ".") or k.startswith(s + ".") for s in fsrc)
                                            and fn_.get(k, "<gone>") != fo[k]]
                    if changed_dst_only:
                        bad("C13", "destination-only-doc-key-changed", f"job {i}: keys {changed_dst_only} exist only in the "
                            f"destination document but changed: {dold} -> {dnow}")
                    if (not in_scope or opts["doc_sync"] == "nosync") and dnow != dold:
                        bad("C15" if not in_scope else "C14", "document-touched", f"job {i}: document changed {dold} -> {dnow} "
                            f"({'outside selection' if not in_scope else 'NO_SYNC'})")
                    if dry and dnow != dold:
                        bad("C15", "dry-run-modifies-document", f"job {i}: {dold} -> {dnow}", nested=any("." in k for k in fn_))

            # ---- C14: conflicting files
            for i in scope:
                sh = SHAPES[shapes[i]]
                if "dst" not in sh:
                    continue
                for rel in common_files(i):
                    k = dst_rel(i, rel)
                    if before_s[k] == before_d[k]:
                        continue
                    now = after_d.get(k)
                    old = before_d.get(k)
                    src_entry = before_s.get(k)
                    differing = (i, rel) in file_conflicts
                    if not differing:
                        if now != old:
                            bad("C14" if not excluded(rel) else "C15", "non-conflicting-file-overwritten",
                                f"{k} is not a conflict under the documented comparison (excluded / not recursive / equal "
                                f"size+mtime without deep) but was changed", reason="excluded" if excluded(rel) else "scope")
                        continue
                    verdict = strategy_verdict(i, rel)
                    if dry:
                        continue
                    if verdict is None:
                        if now != old:
                            bad("C14", "conflicting-file-overwritten-without-strategy", f"{k} overwritten although no strategy was given")
                    elif outcome == "ok":
                        want = src_entry if verdict else old
                        if now != want:
                            bad("C14", "strategy-verdict-not-honoured", f"{k}: strategy {opts['strategy']} says "
                                f"{'overwrite' if verdict else 'keep'}, file is {'overwritten' if now == src_entry else 'kept' if now == old else 'other'}",
                                strategy=opts["strategy"], verdict=verdict, nested="/" in rel)
                    else:
                        if now not in (old, src_entry if verdict else old):
                            bad("C14", "strategy-verdict-not-honoured", f"{k} has unexpected content after {outcome}",
                                strategy=opts["strategy"], verdict=verdict, nested="/" in rel)

            # ---- C14: document keys
            if not dry and not copy_docs:
                for i in scope:
                    sh = SHAPES[shapes[i]]
                    if "dst" not in sh or shapes[i] == "doc-mixed-type":
                        if shapes[i] == "doc-mixed-type":
                            dnow, dold = read_doc(pd, ids[i]), docs_before[i]
                            if outcome != "ok" and dnow != dold:
                                bad("C14", "document-not-rolled-back", f"job {i}: after {outcome} the document is {dnow}, "
                                    f"before {dold}", outcome=outcome)
                            if outcome == "ok":
                                # the key 'm' (scalar in the destination, mapping in the source) differs: it may only be
                                # overwritten if the key strategy selects it (update: always, NO_SYNC: never)
                                want_over = opts["doc_sync"] == "update" or key_selected(opts["doc_sync"], "m")
                                if (dnow or {}).get("m") != (dold or {}).get("m") and not want_over:
                                    bad("C14", "doc-key-strategy-not-honoured", f"job {i}: key 'm' ({dold.get('m')!r} vs source "
                                        f"mapping) with {opts['doc_sync']} must be kept, document is {dnow}",
                                        doc_sync=opts["doc_sync"], depth=1, want_overwrite=False, mixed_type=True)
                        continue
                    dnow, dold = read_doc(pd, ids[i]), docs_before[i]
                    fs, fo, fn_ = flat(sh["src"]["doc"]), flat(dold), flat(dnow)
                    if outcome in ("DocumentSyncConflict", "RuntimeError"):
                        if dnow != dold:
                            bad("C14", "document-not-rolled-back", f"job {i}: DocumentSyncConflict raised but the destination "
                                f"document changed {dold} -> {dnow}", outcome=outcome)
                        continue
                    if outcome != "ok":
                        continue
                    for k, v in fs.items():
                        if k in fo and fo[k] != v:
                            if opts["doc_sync"] == "update":
                                want_over = True
                            elif opts["doc_sync"] == "nosync":
                                want_over = False
                            else:
                                want_over = key_selected(opts["doc_sync"], k)
                            got_over = fn_.get(k) == v
                            kept = fn_.get(k) == fo[k]
                            if want_over != got_over or (not want_over and not kept):
                                bad("C14", "doc-key-strategy-not-honoured", f"job {i}: key {k!r} ({fo[k]!r} vs source {v!r}) with "
                                    f"{opts['doc_sync']}: should be {'overwritten' if want_over else 'kept'}, document is {dnow}",
                                    doc_sync=opts["doc_sync"], depth=k.count(".") + 1, want_overwrite=want_over)
                        elif k not in fo and opts["doc_sync"] != "nosync":
                            covered = any(o == k or k.startswith(o + ".") for o in fo)  # parent replaced wholesale
                            if not covered and fn_.get(k) != v and opts["doc_sync"] != "nosync":
                                bad("C13", "source-doc-key-not-copied", f"job {i}: key {k!r} exists only in the source document "
                                    f"but is missing afterwards: {dnow}", doc_sync=opts["doc_sync"])
                # project document
                if not job_level:
                    pnow = read_doc(pd)
                    if outcome == "DocumentSyncConflict" and pnow != pdoc_before:
                        bad("C14", "document-not-rolled-back", f"project document changed {pdoc_before} -> {pnow} although "
                            f"DocumentSyncConflict was raised", outcome=outcome)
                    if opts["doc_sync"] in ("nosync", "copy") and pnow != pdoc_before:
                        bad("C14", "document-touched", f"project document changed under {opts['doc_sync']}")
            # no backup files remain
            left = [k for k in after_d if k.endswith("~") and k not in before_d] + [k for k in after_s if k.endswith("~")]
            if left:
                bad("C14", "backup-file-left-behind", f"backup files remain: {left}", outcome=outcome)

            # ---- C13: postconditions of calls that return
            if outcome == "ok" and not dry:
                import signac
                for i in scope:
                    sh = SHAPES[shapes[i]]
                    newly = "dst" not in sh
                    try:
                        j = signac.Project(pd).open_job(id=ids[i])
                        ok = canon.typed_eq(canon.plain(j.statepoint()), {"j": i})
                    except Exception as e:  # noqa
                        ok = False
                    if not ok:
                        bad("C13", "selected-job-missing", f"source job {i} ({shapes[i]}) is not in the destination after the sync")
                        continue
                    for rel in sh["src"]["files"]:
                        nested = "/" in rel
                        if excluded(rel):
                            continue
                        if (not newly) and rel in sh["dst"]["files"]:
                            continue
                        if nested and not (opts["recursive"] or newly):
                            continue
                        k = dst_rel(i, rel)
                        if after_d.get(k) != before_s.get(k):
                            bad("C13", "source-file-not-copied", f"{k} should have been copied byte-identically "
                                f"(newly cloned={newly}, recursive={opts['recursive']}): {after_d.get(k)} vs source {before_s.get(k)}",
                                nested=nested, newly_cloned=newly)
                # idempotence
                outcome2, _ = call(root, ids, opts, entry)
                ncalls += 1
                again_s, again_d = snap(ps), snap(pd)
                if outcome2 != "ok" or again_s != after_s or again_d != after_d:
                    bad("C13", "repeat-is-not-noop", f"repeating the sync: outcome {outcome2}, destination diff "
                        f"{canon.snap_diff(after_d, again_d)[:4]}", outcome=outcome2)
                # the SAME Project objects once more, after a job that the sync had brought over was removed from the
                # destination through that very destination object: it has to come back complete
                gone = [i for i in scope if "src" in SHAPES[shapes[i]]]
                if not job_level and gone and not viol:
                    S2, D2 = call.last_projects
                    try:
                        D2.open_job(id=ids[gone[0]]).remove()
                        outcome3, _ = call(root, ids, opts, entry, projects=(S2, D2))
                    except Exception as e:  # noqa
                        outcome3 = f"{type(e).__name__}: {e}"
                    ncalls += 1
                    third_d = snap(pd)
                    want_d = {k: v for k, v in again_d.items()}
                    # what only the destination had in that job is gone for good; everything the source has must be back
                    src_prefix = f"workspace/{ids[gone[0]]}"
                    missing = [k for k, v in before_s.items() if (k == src_prefix or k.startswith(src_prefix + "/"))
                               and not (excl and excluded(k.split("/", 2)[2]) if k.count("/") >= 2 else False)
                               and (opts["recursive"] or True) and third_d.get(k) != v and not k.endswith(DOCF)]
                    if outcome3 != "ok" or missing:
                        bad("C13", "removed-job-not-restored-by-next-sync", f"after removing job {ids[gone[0]]} from the destination "
                            f"and synchronizing again through the same Project objects: outcome {outcome3}, missing or different "
                            f"{missing[:4]}", outcome=str(outcome3)[:40])
    return viol, outcome, ncalls, anomalies


def run_real_for_dry(case):
    """Outcome class of the real (non-dry) run of the same case on a fresh copy."""
    shapes, pdoc, opts, entry = case
    o2 = dict(opts)
    o2.pop("dry_run", None)
    with scratch.fresh("syncr") as root:
        with env.listing_order(opts.get("order", "sorted")):
            ids = build(root, shapes, pdoc)
            return call(root, ids, o2, entry)[0]


def dst_tree_of(case):
    shapes, pdoc, opts, entry = case
    with scratch.fresh("syncp") as root:
        with env.listing_order(opts.get("order", "sorted")):
            ids = build(root, shapes, pdoc)
            out = call(root, ids, opts, entry)[0]
            return out, snap(os.path.join(root, "dst"))


def base_opts(**kw):
    o = {"strategy": "none", "doc_sync": "default", "recursive": False, "exclude": False, "selection": None,
         "check_schema": False, "order": "sorted"}
    o.update(kw)
    return o


# ------------------------------------------------------------------ universes
BOTH = [n for n in SHAPE_NAMES if "src" in SHAPES[n] and "dst" in SHAPES[n]]
MULTI = ["src-only", "dst-only", "src-new-files", "diff-size-newer", "doc-flat-conflict", "doc-nested-conflict", "identical",
         "diff-samesize-equal"]


def base_cases(tier):
    """1-shape projects x option product, project level and job level; selection / project-doc / schema slices."""
    for name, st, ds, rec, ex in itertools.product(SHAPE_NAMES, STRATEGIES, DOCSYNCS, (False, True), (False, True)):
        yield ((name,), "none", base_opts(strategy=st, doc_sync=ds, recursive=rec, exclude=ex), "Project.sync")
    for name, st, ds, rec, ex, entry in itertools.product(BOTH, STRATEGIES, DOCSYNCS, (False, True), (False, True),
                                                          ("Job.sync", "sync_jobs")):
        if tier == "quick" and entry == "sync_jobs" and ex:
            continue
        yield ((name,), "none", base_opts(strategy=st, doc_sync=ds, recursive=rec, exclude=ex, job_index=0), entry)
    for pd_, ds, cs, name in itertools.product(PDOCS, DOCSYNCS, (False, True), ("identical", "src-only", "dst-only")):
        yield ((name,), pd_, base_opts(strategy="always", doc_sync=ds, check_schema=cs), "sync_projects")
    pairs = list(itertools.permutations(MULTI[:6] if tier == "quick" else MULTI, 2))
    for (a, b) in pairs:
        for sel in (None, {"form": "ids", "indices": [0]}, {"form": "ids", "indices": [1]}, {"form": "jobs", "indices": [0]},
                    {"form": "ids", "indices": [0, 1]}, {"form": "ids", "indices": []}, {"form": "id-prefixes", "indices": [0]}):
            for st, ds in (("always", "update"), ("none", "default"), ("update", "bykey-fn")):
                for order in ("sorted", "reversed"):
                    yield ((a, b), "none", base_opts(strategy=st, doc_sync=ds, recursive=True, selection=sel, order=order),
                           "sync_projects")
    # list-valued exclude patterns: sync_jobs() appends to the list it is given, later clones must not be affected
    for (a, b) in pairs:
        for order in ("sorted", "reversed"):
            yield ((a, b), "none", base_opts(strategy="always", doc_sync="update", recursive=True, exclude="list", order=order),
                   "sync_projects")
    for name in SHAPE_NAMES:
        yield ((name,), "none", base_opts(strategy="always", doc_sync="update", recursive=True, exclude="list"), "Project.sync")
    for sh in (("diff-excluded-name", "diff-excluded-name"), ("identical", "diff-excluded-name"), ("dst-extra", "diff-excluded-name"),
               ("diff-excluded-name", "src-new-files", "diff-excluded-name")):
        for ds in ("copy", "default", "update"):
            for order in ("sorted", "reversed"):
                yield (sh, "none", base_opts(strategy="always", doc_sync=ds, recursive=True, exclude="list", order=order),
                       "sync_projects")
    if tier != "quick":
        for tri in itertools.permutations(MULTI[:6], 3):
            for st, ds in (("always", "update"), ("never", "bykey-regex")):
                yield (tri, "disjoint", base_opts(strategy=st, doc_sync=ds, recursive=True), "Project.sync")
    # projects whose schemas differ (other values under the same key): with check_schema=True the call is refused
    for sh in (("src-only", "dst-only"), ("dst-only", "src-new-files"), ("doc-flat-conflict", "dst-only")):
        for pd_ in PDOCS:
            for ds in ("default", "update", "copy"):
                yield (sh, pd_, base_opts(strategy="always", doc_sync=ds, recursive=True, check_schema=True), "sync_projects")
                yield (sh, pd_, base_opts(strategy="always", doc_sync=ds, recursive=True, check_schema=True), "Project.sync")
    # job-level synchronization onto a destination job that does not exist yet (a handle with the same state point)
    for name in ("src-only", "src-new-files"):
        for ds in ("default", "copy", "update"):
            for entry in ("Job.sync", "sync_jobs"):
                if name == "src-new-files":
                    continue
                yield ((name,), "none", base_opts(strategy="always", doc_sync=ds, recursive=True, job_index=0), entry)
                yield ((name,), "none", base_opts(strategy="always", doc_sync=ds, recursive=True, job_index=0, dst_stray_dir=True), entry)
    yield from prior_cases(tier)


def deep_cases(tier):
    names = [n for n in BOTH if n.startswith("diff")] + ["identical"]
    for name, st, rec, entry in itertools.product(names, STRATEGIES, (False, True),
                                                  ("Project.sync", "sync_projects", "Job.sync", "sync_jobs")):
        o = base_opts(strategy=st, doc_sync="nosync", recursive=rec, deep=True)
        if entry in ("Job.sync", "sync_jobs"):
            o["job_index"] = 0
        yield ((name,), "none", o, entry)
        if name != "identical":
            yield ((name,), "none", dict(o, funny_entries=True), entry)


def dry_cases(tier):
    for case in base_cases(tier):
        shapes, pdoc, opts, entry = case
        if len(shapes) > 2:
            continue
        if tier == "quick" and len(shapes) == 2 and opts["order"] == "reversed":
            continue
        yield (shapes, pdoc, dict(opts, dry_run=True), entry)


def parallel_cases(tier):
    pool = MULTI[:5] if tier == "quick" else MULTI
    for tri in itertools.permutations(pool, 3 if tier != "quick" else 2):
        for par in (2, True):
            for st, ds in (("always", "update"), ("update", "bykey-fn")):
                yield (tri, "none", base_opts(strategy=st, doc_sync=ds, recursive=True, parallel=par), "sync_projects")


def run_check(ctx, prop, items_fn, rule, extra_eval=None):
    """Common driver of c13/c14/c15: evaluate all cases, keep the violations that belong to `prop`."""
    from .. import engine_i
    from ..runner import Report

    level = "exploration"
    report = Report(level)
    global _PROP
    _PROP = prop
    # an engine-T item is a whole exploration (up to ~5000 executions): one item per work unit, the largest first
    heavy = [i for i in items_fn(ctx.tier) if i[0] == "tparallel"]
    heavy.sort(key=lambda i: -(3 * i[2] + {False: 0, "listing": 1, True: 2}[i[3]] * i[2]))
    tot = engine_i.run_items(ctx, (i for i in items_fn(ctx.tier) if i[0] != "tparallel"), _evaluate, chunk=16, singles=heavy)
    engine_i.fill_report(report, tot, rule=rule, floor_distinct=20)
    return report


_PROP = None


def _evaluate(item):
    kind = item[0]
    if kind == "case":
        case = item[1]
        viol, outcome, n, anomalies = evaluate_case(case)
        extra = []
        if case[2].get("dry_run"):
            real = run_real_for_dry(case)
            n += 1
            if real != outcome and not (real == "ok" and outcome == "ok"):
                extra.append({"prop": "C15", "sig": {"kind": "dry-run-outcome-differs", "dry": outcome, "real": real},
                              "scenario": case[3], "input": {"shapes": list(case[0]), "pdoc": case[1], "opts": case[2], "entry": case[3]},
                              "expected": real, "observed": outcome,
                              "msg": f"dry run ends with {outcome}, the real run with {real}"})
        viol = [v for v in viol + extra if v["prop"] == _PROP]
        for v in viol:
            v["input"]["kind"] = "case"
        shapes, pdoc, opts, entry = case
        return {"cls": f"{entry}:{outcome}", "viol": viol[:6], "n": n,
                "nt": f"{entry}|{outcome}|{'+'.join(shapes)}|{opts['strategy']}|{opts['doc_sync']}|{opts['recursive']}|{opts['exclude']}"
                      f"|{bool(opts.get('dry_run'))}|{bool(opts.get('deep'))}|{anomalies}",
                "sample": {"shapes": list(shapes), "pdoc": pdoc, "opts": opts, "entry": entry, "outcome": outcome}}
    if kind == "parallel":
        case = item[1]
        shapes, pdoc, opts, entry = case
        seq = dict(opts)
        seq.pop("parallel")
        o1, t1 = dst_tree_of((shapes, pdoc, seq, entry))
        from multiprocessing.pool import ThreadPool as RealPool

        from signac import sync as ssync
        saved = getattr(ssync, "ThreadPool", None)
        if saved is not None:
            ssync.ThreadPool = RealPool  # this comparison is the free-running smoke test
        try:
            o2, t2 = dst_tree_of(case)
        finally:
            if saved is not None:
                ssync.ThreadPool = saved
        viol = []
        if (o1, t1) != (o2, t2):
            viol.append({"prop": "C15", "sig": {"kind": "parallel-differs-from-sequential"}, "scenario": entry,
                         "input": {"kind": "parallel", "shapes": list(shapes), "pdoc": pdoc, "opts": opts, "entry": entry},
                         "expected": o1, "observed": o2,
                         "msg": f"parallel={opts['parallel']}: outcome {o2} vs sequential {o1}; tree diff {canon.snap_diff(t1, t2)[:5]}"})
        viol = [v for v in viol if v["prop"] == _PROP]
        return {"cls": f"parallel:{o2}", "viol": viol, "n": 2, "nt": f"parallel|{'+'.join(shapes)}|{opts['parallel']}|{o2}",
                "sample": {"shapes": list(shapes), "opts": opts, "outcome": o2}}
    if kind == "tparallel":
        return _evaluate_threads(item[1], item[2], item[3] if len(item) > 3 else False)
    raise ValueError(kind)


def _evaluate_threads(case, bound, reads=False):
    """In a forked child that owns the locks of signac / synced_collections and is bounded in time (engine_t.isolated)."""
    from .. import engine_t
    return engine_t.isolated(_evaluate_threads_here, case, bound, reads)


def _evaluate_threads_here(case, bound, reads=False):
    """Every interleaving (<= bound preemptions; scheduling points before every mutating system call, with ``reads`` also
    before every stat / listing call) of the pool's threads must leave the destination tree, and end with the outcome, of
    the sequential run."""
    import json

    from signac import sync as ssync

    from .. import engine_t
    shapes, pdoc, opts, entry = case
    seq = dict(opts)
    seq.pop("parallel")
    o1, t1 = dst_tree_of((shapes, pdoc, seq, entry))
    want = json.dumps([o1, t1], sort_keys=True, default=str)

    def run_once(sched):
        orig = getattr(ssync, "ThreadPool", None)
        if orig is not None:
            ssync.ThreadPool = engine_t.make_pool_class(sched)
        try:
            o, t = dst_tree_of(case)
        finally:
            if orig is not None:
                ssync.ThreadPool = orig
        return json.dumps([o, t], sort_keys=True, default=str)
    res = engine_t.explore(run_once, bound, mutating_only={False: True, True: False}.get(reads, reads))  # engine_t.HarnessError propagates: reported as HARNESS-ERROR, never as a violation
    t1 = json.loads(want)[1]
    viol = []
    for obs, sched in res["observations"].items():
        if obs != want:
            o2, t2 = json.loads(obs)
            viol.append({"prop": "C15", "sig": {"kind": "parallel-schedule-differs-from-sequential"}, "scenario": entry,
                         "input": {"kind": "tparallel", "shapes": list(shapes), "pdoc": pdoc, "opts": opts, "entry": entry,
                                   "schedule": sched, "bound": bound, "reads": reads},
                         "expected": o1, "observed": o2,
                         "msg": f"parallel={opts['parallel']} under thread schedule {sched}: outcome {o2} vs sequential {o1}; "
                                f"tree diff {canon.snap_diff(t1, t2)[:5]}"})
    viol = [v for v in viol if v["prop"] == _PROP]
    return {"cls": f"tparallel:{o1}", "viol": viol[:3], "n": res["schedules"],
            "nt": f"tparallel|{'+'.join(shapes)}|{opts['parallel']}|{opts['exclude']}|{o1}|{res['points_max']}",
            "sample": {"shapes": list(shapes), "opts": opts, "schedules": res["schedules"], "points_max": res["points_max"],
                       "pools_seen": res["pools_seen"], "distinct_outcomes": len(res["observations"])},
            "counters": {"schedules": res["schedules"], "thread_harnesses": 1,
                         "thread_harnesses_with_2+_threads": int(res["schedules"] > 1),
                         "thread_harnesses_without_controlled_pool": int(res["pools_seen"] == 0)}}


def thread_cases(tier):
    """(case, preemption bound, reads).  Scheduling points are the mutating system calls and ``open``; with reads ==
    "listing" directory listings as well; with reads == True every stat call too."""
    pool = MULTI[:5] if tier == "quick" else MULTI
    two_tasks = [n for n in pool if "src" in SHAPES[n]]
    k = 0
    for pair in itertools.permutations(pool, 2):
        for par in (2, True):
            case = (pair, "none", base_opts(strategy="always", doc_sync="update", recursive=True, parallel=par), "sync_projects")
            yield case, 1, True
            if pair[0] in two_tasks and pair[1] in two_tasks and par == 2:
                k += 1
                if tier != "quick" or k % 3 == 1:
                    yield case, 2, "listing"
    # option objects shared by the tasks (exclude given as a list), jobs present on both sides whose documents differ in
    # size and hold destination-only keys: two preemptions, every system call a scheduling point
    shared = [(("dst-extra", "dst-extra"), "sorted"), (("dst-extra", "doc-nested-conflict"), "sorted"),
              (("dst-extra", "doc-nested-conflict"), "reversed"), (("doc-nested-dst-only", "doc-nested-dst-only"), "sorted"),
              (("doc-flat-conflict", "dst-extra"), "sorted"), (("doc-flat-conflict", "dst-extra"), "reversed")]
    for n, (pair, order) in enumerate(shared):
        case = (pair, "none", base_opts(strategy="always", doc_sync="update", recursive=True, exclude="list", parallel=2,
                                        order=order), "sync_projects")
        yield case, 2, "listing"
        if tier != "quick" and n < 2:
            yield case, 2, True
    n3 = 0
    for tri in itertools.permutations(pool[:4], 3):
        if tier == "quick" and tri[0] != pool[0]:
            continue
        for par in (2, True):
            n3 += 1
            # three tasks: every schedule with one preemption over all system calls; thorough also two preemptions over the
            # mutating calls
            case = (tri, "none", base_opts(strategy="update", doc_sync="bykey-fn", recursive=True, exclude="list", parallel=par),
                    "sync_projects")
            yield case, 1, True
            if tier != "quick":
                yield case, 2, False


def replay_case(payload, prop):
    global _PROP
    _PROP = prop
    i = payload["input"]
    kind = i.get("kind", "case")
    case = (tuple(i["shapes"]), i["pdoc"], i["opts"], i["entry"])
    if kind == "tparallel":
        return _evaluate((kind, case, i["bound"], i.get("reads", False)))["viol"]
    return _evaluate((kind, case))["viol"]
