"""C05 — job and project documents are faithful persistent dicts; buffering is transparent.

Engine H: breadth-first search over histories of mapping operations on job / project documents
through several handles, de-duplicated by (model documents, parsed files, in-memory handle data).
Every transition is executed unbuffered with a plain dict in lock step; every history that reaches
a new state is additionally executed under every laminar bracketing (<=2 blocks, nested or
disjoint) into signac.buffered() blocks, for several buffer capacities.
"""
import contextlib
import itertools
import json
import os

from .. import canon, engine_h, scratch
from ..runner import Report

PROPERTY = "C05"
LEVEL = "model_checking"
_CFG = {"targets": ["J1a", "J1b", "P1"], "caps": [None, 30], "salt": 0, "ops": None}

DOCFILE = "signac_job_document.json"
PDOCFILE = "signac_project_document.json"

OPS = [
    ("set", "x", 1), ("set", "x", [1, 2]), ("set", "x", {"n": 1}), ("set", "y", 1.5), ("attr", "x", "s"),
    ("del", "x"), ("update", {"x": True, "y": None}), ("setdefault", "x", 7), ("pop", "x"), ("pop", "y", "dflt"),
    ("clear",), ("reset", {"y": 2}), ("nested", "x", "n", 5), ("append", "x", 3),
    ("set", "x", {"n": {"m": 2}}), ("listset", "x", 0, 9), ("set", "x", None), ("nested2", "x", "n", "m", 3),
]
OPS.insert(13, ("remove",))  # job targets only; part of the quick alphabet
OPS.insert(14, ("job_clear",))
OPS.insert(15, ("job_reset",))
OPS.insert(16, ("recreate",))
OPS.insert(17, ("refused",))
OPS.insert(18, ("reset", {}))  # whole assignment of the EMPTY mapping (also as the first thing a buffered block does to a new document)  # whole assignment / item assignment of values signac refuses: must raise and change nothing  # job.remove(); job.init() through the same handle (also inside buffered blocks)
DOC_OF = {"J1a": "J1", "J1b": "J1", "J2": "J2", "P1": "P", "P2": "P"}


def apply_plain(d, op):
    """The same operation on a plain dict. Returns (value or None, exception class name or None)."""
    k = op[0]
    try:
        if k in ("set", "attr"):
            d[op[1]] = json.loads(json.dumps(op[2]))
        elif k == "del":
            del d[op[1]]
        elif k == "update":
            d.update(json.loads(json.dumps(op[1])))
        elif k == "setdefault":
            return d.setdefault(op[1], op[2]), None
        elif k == "pop":
            return (d.pop(op[1]) if len(op) == 2 else d.pop(op[1], op[2])), None
        elif k == "clear":
            d.clear()
        elif k == "reset":
            d.clear()
            d.update(json.loads(json.dumps(op[1])))
        elif k in ("remove", "job_clear", "job_reset", "recreate"):
            d.clear()
        elif k == "refused":
            return None, "Refused"
        elif k == "nested":
            d[op[1]][op[2]] = op[3]
        elif k == "nested2":
            d[op[1]][op[2]][op[3]] = op[4]
        elif k == "append":
            d[op[1]].append(op[2])
        elif k == "listset":
            if not isinstance(d[op[1]], list):
                raise TypeError("list item assignment on a non-list (a JSON mapping has no integer keys)")
            d[op[1]][op[2]] = op[3]
        else:
            raise ValueError(op)
    except (KeyError, TypeError, AttributeError, IndexError) as e:
        return None, type(e).__name__
    return None, None


def applicable(d, op):
    """Operations whose plain-dict meaning has no JSON counterpart are not performed at all."""
    if op[0] == "listset":
        return isinstance(d.get(op[1]), list) or op[1] not in d or not isinstance(d.get(op[1]), dict)
    return True


def apply_real(owner, op):
    """owner: Job or Project (always accessed through owner.doc)."""
    k = op[0]
    try:
        if k == "reset":
            # whole assignment must not be preceded by any other access of this handle's document
            owner.doc = json.loads(json.dumps(op[1]))
            return None, None
        if k == "remove":
            owner.remove()
            return None, None
        if k == "job_clear":
            owner.clear()
            return None, None
        if k == "job_reset":
            owner.reset()
            return None, None
        if k == "recreate":
            owner.remove()
            owner.init()
            return None, None
        if k == "refused":
            refused = 0
            for attempt in (lambda: setattr(owner, "doc", {"a.b": 1}), lambda: setattr(owner, "document", 5),
                            lambda: owner.doc.__setitem__("w", {"c.d": 1}), lambda: setattr(owner, "doc", {1: "x"})):
                try:
                    attempt()
                except Exception:  # noqa
                    refused += 1
            return None, ("Refused" if refused == 4 else None)
        doc = owner.doc
        if k == "set":
            doc[op[1]] = json.loads(json.dumps(op[2]))
        elif k == "attr":
            setattr(doc, op[1], op[2])
        elif k == "del":
            del doc[op[1]]
        elif k == "update":
            doc.update(json.loads(json.dumps(op[1])))
        elif k == "setdefault":
            return canon.plain(doc.setdefault(op[1], op[2])), None
        elif k == "pop":
            return canon.plain(doc.pop(op[1]) if len(op) == 2 else doc.pop(op[1], op[2])), None
        elif k == "clear":
            doc.clear()
        elif k == "nested":
            doc[op[1]][op[2]] = op[3]
        elif k == "nested2":
            doc[op[1]][op[2]][op[3]] = op[4]
        elif k == "append":
            doc[op[1]].append(op[2])
        elif k == "listset":
            doc[op[1]][op[2]] = op[3]
        else:
            raise ValueError(op)
    except Exception as e:  # noqa
        return None, type(e).__name__
    return None, None


class DocWorld:
    def __init__(self, root, salt):
        import signac

        self.signac = signac
        self.path = os.path.join(root, "p")
        os.makedirs(self.path)
        signac.init_project(self.path)
        pa, pb = signac.Project(self.path), signac.Project(self.path)
        sp1, sp2 = {"j": 1, "salt": salt}, {"j": 2, "salt": salt}
        self.owners = {"J1a": pa.open_job(sp1).init(), "J1b": pb.open_job(sp1), "J2": pa.open_job(sp2).init(),
                       "P1": pa, "P2": pb}
        self.files = {"J1": os.path.join(self.path, "workspace", canon.job_id(sp1), DOCFILE),
                      "J2": os.path.join(self.path, "workspace", canon.job_id(sp2), DOCFILE),
                      "P": os.path.join(self.path, PDOCFILE)}
        self.model = {"J1": {}, "J2": {}, "P": {}}
        self.stale = set()  # handles whose job was removed through another handle (their use is undefined)

    def note(self, target, op):
        if op[0] in ("remove", "recreate"):
            for t, d in DOC_OF.items():
                if d == DOC_OF[target] and t != target:
                    self.stale.add(t)

    def file_content(self, doc):
        try:
            with open(self.files[doc], "rb") as f:
                return json.loads(f.read().decode())
        except FileNotFoundError:
            return None

    def key(self):
        mem = {}
        for t in _CFG["targets"]:
            o = self.owners[t]
            d = getattr(o, "_document", None)
            mem[t] = None if d is None else canon.canon_json(_raw(d))
        return json.dumps({"model": {k: canon.canon_json(v) for k, v in self.model.items()},
                           "files": {k: (None if self.file_content(k) is None else canon.canon_json(self.file_content(k)))
                                     for k in self.files}, "mem": mem, "stale": sorted(self.stale)}, sort_keys=True)


def _raw(v):
    """In-memory content of a synced collection without triggering a load."""
    if hasattr(v, "_data"):
        v = v._data
    if isinstance(v, dict):
        return {k: _raw(x) for k, x in v.items()}
    if isinstance(v, (list, tuple)):
        return [_raw(x) for x in v]
    return v


def type_only_difference(a, b):
    """a == b as Python compares them, but not type-exactly (1 vs 1.0 vs True somewhere inside)."""
    try:
        return a == b and not canon.typed_eq(a, b)
    except Exception:
        return False


def none_over_container(seen, model):
    """Some key holds None in the dict while the handle still shows the container that was there before."""
    try:
        return any(v is None and isinstance(seen.get(k), (dict, list)) for k, v in model.items())
    except Exception:
        return False


def laminar_bracketings(n):
    """All families of <=2 non-crossing intervals [i,j) over n operations (incl. the empty family)."""
    ivs = [(i, j) for i in range(n) for j in range(i + 1, n + 1)]
    yield ()
    for a in ivs:
        yield (a,)
    for a, b in itertools.combinations(ivs, 2):
        disjoint = a[1] <= b[0] or b[1] <= a[0]
        nested = (a[0] <= b[0] and b[1] <= a[1]) or (b[0] <= a[0] and a[1] <= b[1])
        if disjoint or nested:
            yield (a, b)


def run_buffered(hist, brackets, capacity, salt):
    """Execute the whole history with the given buffered blocks. Returns list of (kind, msg, extra)."""
    import signac

    out = []
    with scratch.fresh("c05b") as root:
        w = DocWorld(root, salt)
        stack = []
        try:
            for k, (target, op) in enumerate(hist):
                for iv in sorted([b for b in brackets if b[0] == k], key=lambda b: -(b[1] - b[0])):
                    cm = signac.buffered(capacity) if capacity is not None else signac.buffered()
                    cm.__enter__()
                    stack.append((iv, cm))
                doc = DOC_OF[target]
                if applicable(w.model[doc], op):
                    want_ret, want_exc = apply_plain(w.model[doc], op)
                    got_ret, got_exc = apply_real(w.owners[target], op)
                    w.note(target, op)
                    if got_exc is not None and want_exc is None:
                        out.append(("buffered-op-raises", f"op {k} {op} on {target} raised {got_exc} inside_block={bool(stack)}",
                                    {"inside_block": bool(stack), "exc": got_exc}))
                    if got_exc is None and want_exc is None and not canon.typed_eq(got_ret, want_ret):
                        out.append(("buffered-op-outcome-differs",
                                    f"op {k} {op} on {target}: returned {got_ret!r}/{got_exc}, dict gives {want_ret!r}/{want_exc}",
                                    {"inside_block": bool(stack)}))
                    # reads inside the block through the writing handle see the block's own writes
                    if op[0] == "remove":
                        seen = w.model[doc]  # reading job.doc would re-initialise the removed job
                    else:
                        seen = canon.plain(w.owners[target].doc())
                    if not canon.typed_eq(seen, w.model[doc]):
                        out.append(("read-through-writing-handle-differs",
                                    f"after op {k} {op} on {target} (inside_block={bool(stack)}): handle reads {seen!r}, "
                                    f"dict is {w.model[doc]!r}", {"inside_block": bool(stack)}))
                while stack and stack[-1][0][1] == k + 1:
                    iv, cm = stack.pop()
                    cm.__exit__(None, None, None)
        except Exception as e:  # noqa
            out.append(("buffered-run-raises", f"{type(e).__name__}: {e}", {"exc": type(e).__name__}))
            while stack:
                try:
                    stack.pop()[1].__exit__(None, None, None)
                except Exception:
                    pass
            return out
        if signac.is_buffered():
            out.append(("still-buffered-after-exit", "signac.is_buffered() is True after leaving all blocks", {}))
        # on exit: exactly the files an unbuffered run leaves (== the model) and every handle agrees
        for doc in w.files:
            fc = w.file_content(doc)
            touched = any(DOC_OF[t] == doc for t, _ in hist)
            want = w.model[doc]
            if fc is None:
                if touched and want:
                    out.append(("file-missing-after-block", f"{doc}: no file, dict is {want!r}", {}))
            elif not canon.typed_eq(fc, want):
                out.append(("file-differs-after-block", f"{doc}: file holds {fc!r}, dict is {want!r}", {}))
        for t in _CFG["targets"]:
            if t in w.stale or (DOC_OF[t] != "P" and w.file_content(DOC_OF[t]) is None and not w.model[DOC_OF[t]]):
                continue
            seen = canon.plain(w.owners[t].doc())
            if not canon.typed_eq(seen, w.model[DOC_OF[t]]):
                out.append(("other-handle-differs-after-block", f"{t} reads {seen!r}, dict is {w.model[DOC_OF[t]]!r}", {}))
    return out


def execute(hist):
    """Unbuffered execution of hist = ((target, op), ...) with checks after the last op + buffered variants."""
    viol = []
    salt = _CFG["salt"]
    hist = tuple((t, tuple(_t(o))) for t, o in hist)

    def bad(kind, msg, **extra):
        viol.append({"sig": dict(kind=kind, **extra), "scenario": "documents",
                     "input": {"history": [[t, list(o)] for t, o in hist], "targets": _CFG["targets"], "salt": salt,
                               **{k: v for k, v in extra.items() if k in ("brackets", "capacity")}},
                     "expected": "plain dict", "observed": msg, "msg": msg})
    n = 0
    with scratch.fresh("c05") as root:
        w = DocWorld(root, salt)
        file_sets = None
        for k, (target, op) in enumerate(hist):
            last = k == len(hist) - 1
            doc = DOC_OF[target]
            if not applicable(w.model[doc], op):
                continue
            want_ret, want_exc = apply_plain(w.model[doc], op)
            got_ret, got_exc = apply_real(w.owners[target], op)
            w.note(target, op)
            n += 1
            if last and got_exc is None and want_exc is None and not canon.typed_eq(got_ret, want_ret):
                bad("return-value-differs", f"{op} on {target}: returned {got_ret!r}, dict returns {want_ret!r}", op=op[0],
                    type_only=type_only_difference(got_ret, want_ret))
        key = w.key()
        if hist and hist[-1][1][0] == "remove" and os.path.exists(os.path.dirname(w.files[DOC_OF[hist[-1][0]]])):
            bad("remove-leaves-job", f"job directory of {hist[-1][0]} still exists after remove()")
        if hist and not viol:
            for doc in w.files:
                fc = w.file_content(doc)
                if (fc if fc is not None else {}) != {} or w.model[doc]:
                    if fc is None or not canon.typed_eq(fc, w.model[doc]):
                        bad("file-differs", f"{doc}: file holds {fc!r}, dict is {w.model[doc]!r} (last op {hist[-1][1]})",
                            type_only=type_only_difference(fc, w.model[doc]), op=hist[-1][1][0])
            for t in _CFG["targets"]:
                if t in w.stale or (DOC_OF[t] != "P" and w.file_content(DOC_OF[t]) is None and not w.model[DOC_OF[t]]
                                    and any(o[0] == "remove" for tt, o in hist if DOC_OF[tt] == DOC_OF[t])):
                    continue  # reading job.doc would re-initialise a removed job
                try:
                    seen = canon.plain(w.owners[t].doc())
                except Exception as e:  # noqa
                    bad("read-raises", f"{t}: {type(e).__name__}: {e}")
                    continue
                if not canon.typed_eq(seen, w.model[DOC_OF[t]]):
                    bad("handle-reads-differ", f"{t} reads {seen!r}, dict is {w.model[DOC_OF[t]]!r}",
                        writer=t == hist[-1][0], type_only=type_only_difference(seen, w.model[DOC_OF[t]]),
                        op=hist[-1][1][0], none_over_container=none_over_container(seen, w.model[DOC_OF[t]]))
            # a fresh session
            try:
                p = w.signac.Project(w.path)
                fresh = {"P": canon.plain(p.doc())}
                for j in p:
                    fresh["J1" if j.sp.j == 1 else "J2"] = canon.plain(j.doc()) if j.isfile(DOCFILE) else {}
                for jd in ("J1", "J2"):
                    if jd not in fresh and (w.model[jd] or w.file_content(jd) is not None):
                        bad("fresh-session-reads-differ", f"{jd}: job missing in a fresh session, dict is {w.model[jd]!r}", type_only=False,
                            op=hist[-1][1][0])
                for doc, v in fresh.items():
                    if not canon.typed_eq(v, w.model[doc]):
                        bad("fresh-session-reads-differ", f"{doc}: fresh session reads {v!r}, dict is {w.model[doc]!r}",
                            type_only=type_only_difference(v, w.model[doc]), op=hist[-1][1][0])
            except Exception as e:  # noqa
                bad("read-raises", f"fresh session: {type(e).__name__}: {e}")
        enabled = [[t, list(o)] for t in _CFG["targets"] if t not in w.stale for o in _CFG["ops"]
                   if not (o[0] in ("remove", "job_clear", "job_reset", "recreate") and DOC_OF[t] == "P")]
    return {"key": key, "enabled": enabled, "viol": viol, "n": n, "cls": hist[-1][1][0] if hist else "init",
            "expected_failure": bool(hist) and apply_plain({}, hist[-1][1])[1] is not None}


def buffered_variants(item):
    """Engine-I style item: (history, salt) -> all bracketings x capacities."""
    hist, salt, caps, targets = item[:4]
    mode = item[4] if len(item) > 4 else "all"
    _CFG["targets"] = targets
    hist = tuple((t, tuple(_t(o))) for t, o in hist)
    viol = []
    n = 0
    kinds = set()
    skipped = 0
    if mode == "all":
        brs = laminar_bracketings(len(hist))
    elif mode == "two-blocks":
        n_ = len(hist)
        brs = [((0, n_),), ((0, n_ // 2), (n_ // 2, n_)), ((0, n_), (1, n_ - 1)), ((1, n_),), ((0, n_ - 1),)]
    else:
        # one block around everything, and one around everything but the first operation (the block then starts from
        # whatever the first operation left on disk)
        brs = [((0, len(hist)),)] + ([((1, len(hist)),)] if len(hist) >= 3 else [])
    for br in brs:
        if not br:
            continue
        # inside one buffered block a document is used through ONE handle only (the property speaks of the
        # writing handle; two objects on one file inside a block are outside it)
        multi = False
        for (i, j) in br:
            used = {}
            for t, _ in hist[i:j]:
                used.setdefault(DOC_OF[t], set()).add(t)
            # ... except for Job.clear() / Job.reset() through a second Job object that has not touched the document at
            # all so far, as the last thing done to that document inside the block: the call itself opens the document
            # (from the buffer) and empties it, so the writing handle of the emptied content is that object
            for d_, v in used.items():
                if len(v) > 1:
                    seq = [(k2, hist[k2][0], hist[k2][1][0]) for k2 in range(i, j) if DOC_OF[hist[k2][0]] == d_]
                    last = seq[-1]
                    pristine = all(t2 != last[1] for t2, _ in hist[:last[0]])
                    first_handles = {t2 for _, t2, _ in seq[:-1]}
                    if not (last[2] in ("job_clear", "job_reset") and pristine and len(first_handles) == 1):
                        multi = True
        # lifecycle operations are not performed inside buffered blocks (removing a job whose document is buffered makes
        # the block exit raise BufferedError in the dependency; the property speaks of mapping operations)
        for (i, j) in br:
            if any(hist[k2][1][0] == "remove" for k2 in range(i, j)):
                multi = True
            # remove()+init() inside a block is only defined for a document that the block itself created: if the file was
            # there before the block, the dependency reports the replaced file as a foreign change (BufferedError) on exit
            if i > 0 and any(hist[k2][1][0] == "recreate" for k2 in range(i, j)):
                multi = True
        if multi:
            skipped += 1
            continue
        for cap in caps:
            n += 1
            for kind, msg, extra in run_buffered(hist, br, cap, salt):
                kinds.add(kind)
                if len(viol) < 3:
                    viol.append({"sig": dict(kind=kind, **extra), "scenario": "buffered",
                                 "input": {"history": [[t, list(o)] for t, o in hist], "brackets": [list(b) for b in br],
                                           "capacity": cap, "salt": salt, "targets": targets},
                                 "expected": "what the unbuffered run leaves / plain dict", "observed": msg,
                                 "msg": f"brackets {br}, capacity {cap}: {msg}"})
    return {"cls": f"len{len(hist)}", "viol": viol, "n": n, "nt": (len(hist), tuple(sorted(kinds)), tuple(o[0] for _, o in hist)),
            "sample": {"history": [[t, list(o)] for t, o in hist], "bracketings_x_capacities": n}}


def _t(o):
    return tuple(_t(x) if isinstance(x, list) and False else x for x in o)


def _exec(hist):
    return execute(tuple((t, tuple(o)) for t, o in hist))


def run(ctx):
    from .. import engine_i

    report = Report(LEVEL)
    quick = ctx.quick
    _CFG["salt"] = ctx.seed
    _CFG["targets"] = ["J1a", "J1b", "P1"] if quick else ["J1a", "J1b", "J2", "P1", "P2"]
    _CFG["ops"] = OPS[:20] + [("set", "x", None)] if quick else OPS
    _CFG["caps"] = [None, 30] if quick else [None, 0, 30, 200]
    depth = 3 if quick else 4 if len(_CFG["targets"]) <= 3 else 3
    # thorough: depth 4 on the small target set, depth 3 on the large one
    st = engine_h.explore(ctx, _exec, max_depth=depth, chunk=16, collect_all=True)
    engine_h.fill_report(report, st)
    reps = [(h, list(_CFG["targets"]), "all" if len(h) <= 3 else "full-block") for h in st.reps]
    # buffering depends on the history, not only on the state it reaches: every other explored history is run
    # inside one buffered block as well
    reps += [(h, list(_CFG["targets"]), "full-block") for h in st.nonreps]
    if not quick:
        _CFG["targets"] = ["J1a", "J1b", "P1"]
        _CFG["ops"] = OPS[:19]
        st2 = engine_h.explore(ctx, _exec, max_depth=4, chunk=16, collect_all=True)
        engine_h.fill_report(report, st2)
        reps += [(h, list(_CFG["targets"]), "all" if len(h) <= 3 else "two-blocks") for h in st2.reps]
        reps += [(h, list(_CFG["targets"]), "full-block") for h in st2.nonreps]
    # buffered variants of every history that reached a new state
    items = [(h, ctx.seed, _CFG["caps"] if mode == "all" else [None], tg, mode) for h, tg, mode in reps]
    tot = engine_i.run_items(ctx, iter(items), buffered_variants, chunk=4)
    report.violations.extend(tot.viol)
    report.harness_errors.extend(tot.herr)
    cov = report.coverage
    cov["buffered_runs"] = tot.n
    cov["buffered_histories"] = tot.items
    cov["traces_validated_against_impl"] += tot.n
    cov["bounds"] = {"history_length": depth, "targets": len(_CFG["targets"]), "capacities": [str(c) for c in _CFG["caps"]],
                     "bracketings": "all laminar families of <=2 buffered blocks"}
    cov["alphabet_sizes"] = {"ops": len(_CFG["ops"]), "targets": len(_CFG["targets"])}
    cov["rule"] = ("BFS over (target, mapping operation) histories, unbuffered, plain dict in lock step, state = (dict contents, "
                   "parsed files, in-memory data of every handle); each history reaching a new state re-run under every "
                   "bracketing x capacity")
    cov["exhaustive"] = True
    report.assumptions += ["documents are always reached through job.doc / project.doc (held references across lifecycle "
                           "operations are undefined)", "lifecycle operations are not performed inside buffered blocks"]
    return report


def replay(payload, ctx):
    inp = payload["input"]
    _CFG["salt"] = inp.get("salt", 0)
    _CFG["targets"] = inp.get("targets", ["J1a", "J1b", "P1"])
    _CFG["ops"] = OPS
    hist = [(t, tuple(o)) for t, o in inp["history"]]
    if "brackets" in inp:
        out = run_buffered(tuple(hist), tuple(tuple(b) for b in inp["brackets"]), inp.get("capacity"), _CFG["salt"])
        return [{"sig": dict(kind=k, **e), "msg": m, "expected": None, "observed": m} for k, m, e in out]
    return execute(tuple(hist))["viol"]
