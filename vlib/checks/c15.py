"""C15 — see vlib/checks/syncu.py (shared sync universe, executor and oracles)."""
from . import syncu

PROPERTY = "C15"
LEVEL = "exploration"


def items(tier):
    for c in syncu.dry_cases(tier):
        yield ("case", c)
    for c in syncu.base_cases(tier):
        yield ("case", c)
    for c in syncu.deep_cases(tier):
        yield ("case", c)
    for c in syncu.parallel_cases(tier):
        yield ("parallel", c)
    for c, bound, reads in syncu.thread_cases(tier):
        yield ("tparallel", c, bound, reads)


def run(ctx):
    r = syncu.run_check(ctx, "C15", items, rule=(
        "every case of the C13 universe with dry_run=True (both trees must be identical afterwards, directories included, and "
        "the outcome class must equal that of the real run on a fresh copy); exclude / selection clauses on every case "
        "(excluded names and unselected jobs neither created nor modified, newly cloned jobs included); deep=True on every "
        "differing-file shape at job and project level; parallel in {2, True} against the sequential destination tree on all "
        "ordered 2- (thorough: 3-) shape projects, once free-running with the real ThreadPool and once under engine T: "
        "every interleaving of the pool's threads with <= 1 preemption over all system calls, and with <= 2 preemptions "
        "over the mutating calls and directory listings on every third two-task pair and on six cases whose tasks share an "
        "exclude list (thorough: on all two- and three-task cases), each compared with the sequential destination tree"))
    r.assumptions += ["engine T serialises the pool's threads (one runs at a time) and switches only before system calls; races "
                      "between two byte-code instructions without a system call in between are not explored",
                      "the free-running ThreadPool comparison is an additional smoke test, not part of the exhaustive claim"]
    return r


def replay(payload, ctx):
    return syncu.replay_case(payload, "C15")
