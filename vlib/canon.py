"""Independent oracles: canonical JSON + md5 job id, type-exact equality, tree snapshots.

Written from the property statements and the JSON grammar; nothing here calls signac
or json.dumps.
"""
import hashlib
import os
import stat
from collections.abc import Mapping, Sequence

_SHORT = {'"': '\\"', "\\": "\\\\", "\n": "\\n", "\r": "\\r", "\t": "\\t", "\b": "\\b", "\f": "\\f"}


def _esc(s):
    out = ['"']
    for ch in s:
        if ch in _SHORT:
            out.append(_SHORT[ch])
            continue
        o = ord(ch)
        if 0x20 <= o <= 0x7E:
            out.append(ch)
        elif o < 0x10000:
            out.append("\\u%04x" % o)
        else:
            o -= 0x10000
            out.append("\\u%04x\\u%04x" % (0xD800 | (o >> 10), 0xDC00 | (o & 0x3FF)))
    out.append('"')
    return "".join(out)


def canon_json(v):
    """Canonical JSON text: sorted keys at every level, ', ' and ': ', ASCII-escaped."""
    if v is None:
        return "null"
    if v is True:
        return "true"
    if v is False:
        return "false"
    if isinstance(v, int):
        return str(v)
    if isinstance(v, float):
        if v != v or v in (float("inf"), float("-inf")):
            raise ValueError("non-finite float")
        return repr(v)
    if isinstance(v, str):
        return _esc(v)
    if isinstance(v, Mapping):
        items = sorted(((k, canon_json(x)) for k, x in v.items()), key=lambda kv: kv[0])
        return "{" + ", ".join(_esc(k) + ": " + x for k, x in items) + "}"
    if isinstance(v, Sequence):
        return "[" + ", ".join(canon_json(x) for x in v) + "]"
    raise TypeError(type(v))


def job_id(v):
    return hashlib.md5(canon_json(v).encode("ascii")).hexdigest()


def typed_eq(a, b):
    """Equality of JSON values keeping 1 / 1.0 / True / "1" apart; list == tuple."""
    if isinstance(a, bool) or isinstance(b, bool):
        return isinstance(a, bool) and isinstance(b, bool) and a == b
    if a is None or b is None:
        return a is None and b is None
    if isinstance(a, int) and isinstance(b, int):
        return a == b
    if isinstance(a, float) and isinstance(b, float):
        return repr(a) == repr(b)
    if isinstance(a, (int, float)) or isinstance(b, (int, float)):
        return False
    if isinstance(a, str) or isinstance(b, str):
        return isinstance(a, str) and isinstance(b, str) and a == b
    if isinstance(a, Mapping) and isinstance(b, Mapping):
        if set(a.keys()) != set(b.keys()):
            return False
        return all(typed_eq(a[k], b[k]) for k in a)
    if isinstance(a, Mapping) or isinstance(b, Mapping):
        return False
    if isinstance(a, Sequence) and isinstance(b, Sequence):
        return len(a) == len(b) and all(typed_eq(x, y) for x, y in zip(a, b))
    return False


def plain(v):
    """Convert any mapping/sequence spelling (synced collections included) into dict/list."""
    if isinstance(v, Mapping):
        return {k: plain(x) for k, x in v.items()}
    if isinstance(v, (str, bytes)):
        return v
    if isinstance(v, Sequence):
        return [plain(x) for x in v]
    return v


def tagged(v):
    """A hashable, type-exact key of a JSON value (for use in sets / dict keys)."""
    if isinstance(v, bool):
        return ("b", v)
    if v is None:
        return ("n",)
    if isinstance(v, int):
        return ("i", v)
    if isinstance(v, float):
        return ("f", repr(v))
    if isinstance(v, str):
        return ("s", v)
    if isinstance(v, Mapping):
        return ("m", tuple(sorted((k, tagged(x)) for k, x in v.items())))
    if isinstance(v, Sequence):
        return ("l", tuple(tagged(x) for x in v))
    raise TypeError(type(v))


def snapshot(root, mtime=False, ino=False):
    """{relpath: (kind, sha1-of-bytes | link target | '', [mtime_ns], [inode])} incl. empty dirs."""
    snap = {}
    root = os.fspath(root)
    if not os.path.lexists(root):
        return snap
    stack = [""]
    while stack:
        rel = stack.pop()
        full = os.path.join(root, rel) if rel else root
        try:
            names = os.listdir(full)
        except NotADirectoryError:
            names = None
        if names is None:
            continue
        for n in names:
            r = os.path.join(rel, n) if rel else n
            p = os.path.join(root, r)
            st = os.lstat(p)
            if stat.S_ISLNK(st.st_mode):
                ent = ("l", os.readlink(p))
            elif stat.S_ISDIR(st.st_mode):
                ent = ("d", "")
                stack.append(r)
            else:
                with open(p, "rb") as f:
                    ent = ("f", hashlib.sha1(f.read()).hexdigest())
            if mtime and ent[0] == "f":
                ent = ent + (st.st_mtime_ns,)
            if ino:
                ent = ent + (st.st_ino,)
            snap[r] = ent
    return snap


def snap_diff(before, after):
    """Sorted list of (path, before-entry, after-entry) for every path that differs."""
    out = []
    for k in sorted(set(before) | set(after)):
        if before.get(k) != after.get(k):
            out.append((k, before.get(k), after.get(k)))
    return out


def read_tree(root):
    """{relpath: bytes} of regular files (for byte-exact payload comparison)."""
    out = {}
    for dp, dn, fn in os.walk(root):
        for f in fn:
            p = os.path.join(dp, f)
            if os.path.islink(p):
                out[os.path.relpath(p, root)] = ("link", os.readlink(p))
            else:
                with open(p, "rb") as fh:
                    out[os.path.relpath(p, root)] = fh.read()
    return out
