"""Engine H: explicit-state breadth-first search over histories of real API calls.

A state is identified with a history reaching it (live Python objects and directory trees
cannot be copied, so `execute(history)` rebuilds a fresh world and replays the history on the
real implementation, with the reference model in lock step).  `execute` returns

    {"key": canonical state (hashable/str), "enabled": [ops...], "viol": [...], "cls": str,
     "n": number of real API calls, "expected_failure": bool}

Successors are enqueued only when their canonical state is new.  A transition that violates
the oracle is recorded and not expanded.  The search runs level by level on the fork pool,
results are consumed in candidate order, so the representative history of every state is
deterministic.  Bound: `max_depth`, or closure when the frontier empties first.
"""
import json
import multiprocessing
import signal
import traceback
from collections import Counter

_EXEC = None


def _init_worker():
    signal.signal(signal.SIGINT, signal.SIG_IGN)


def _run(hist):
    try:
        return hist, _EXEC(hist), None
    except BaseException as e:  # noqa
        from .engine_i import raised_inside_signac
        where = raised_inside_signac(e)
        if where is None:  # harness bug
            return hist, None, f"execute() raised {type(e).__name__}: {e} on {hist!r}\n" + traceback.format_exc()[-1500:]
        res = {"key": f"raises:{type(e).__name__}:{where}", "enabled": [], "n": len(hist), "cls": "public-call-raises", "viol": [{
            "sig": {"kind": "public-call-raises", "exc": type(e).__name__, "where": where}, "scenario": "history",
            "input": {"history": [list(o) if isinstance(o, (list, tuple)) else o for o in hist]},
            "expected": "no exception", "observed": f"{type(e).__name__}: {e}"[:500],
            "msg": f"a signac call made while replaying {list(hist)!r} raised {type(e).__name__}: {e} (in {where})"[:1200]}]}
        return hist, res, None


def _canon(res):
    # messages may quote scratch paths / uuid temp names: determinism is judged on state key, enabled set and
    # the signatures of the violations
    return json.dumps({"key": res.get("key"), "enabled": res.get("enabled"),
                       "viol": sorted(json.dumps(v.get("sig"), sort_keys=True) for v in res.get("viol") or [])},
                      sort_keys=True, default=repr)


class Stats:
    def __init__(self):
        self.states = 0
        self.transitions = 0
        self.executions = 0
        self.api_calls = 0
        self.max_depth = 0
        self.closed = False
        self.levels = []
        self.viol = []
        self.herr = []
        self.cls = Counter()
        self.expected_failures = 0
        self.samples = []
        self.replays = 0
        self.reps = []  # one history per discovered state
        self.nonreps = []  # histories that led to an already known state (filled when collect_all is set)


def explore(ctx, execute, max_depth, chunk=8, selfcheck_every=101, seen=None, stats=None, root=(), collect_all=False):
    global _EXEC
    _EXEC = execute
    st = stats or Stats()
    seen = seen if seen is not None else set()
    mp = multiprocessing.get_context("fork")
    pool = mp.Pool(ctx.nworkers, initializer=_init_worker) if ctx.nworkers > 1 else None

    def pmap(cands):
        if pool is None:
            return map(_run, cands)
        return pool.imap(_run, cands, chunksize=chunk)

    try:
        h0, r0, err = _run(tuple(root))
        if err:
            st.herr.append(err)
            return st
        st.executions += 1
        if r0["key"] not in seen:
            seen.add(r0["key"])
            st.states += 1
        st.viol.extend(r0.get("viol") or [])
        frontier = [(tuple(root), r0["enabled"])]
        depth = 0
        while frontier and depth < max_depth:
            depth += 1
            cands = [h + (op,) for h, en in frontier for op in en]
            nxt = []
            recheck = []
            for i, (h, res, err) in enumerate(pmap(cands)):
                st.executions += 1
                if err:
                    st.herr.append(err)
                    continue
                st.transitions += 1
                st.api_calls += res.get("n", len(h))
                st.cls[res.get("cls", "ok")] += 1
                if res.get("expected_failure"):
                    st.expected_failures += 1
                if res.get("viol"):
                    recheck.append((h, res))
                    continue
                if i % selfcheck_every == 0:
                    recheck.append((h, res))
                if res["key"] not in seen:
                    seen.add(res["key"])
                    st.states += 1
                    nxt.append((h, res["enabled"]))
                    st.reps.append(h)
                    if len(st.samples) < 5 and (depth >= 2 or len(st.samples) < 1):
                        st.samples.append({"history": list(h), "state": str(res["key"])[:300]})
                elif collect_all:
                    st.nonreps.append(h)
            # determinism: violations and a fixed subset are executed a second time
            for h, res in recheck[:400]:
                _, res2, err = _run(h)
                st.replays += 1
                if err or _canon(res) != _canon(res2):
                    st.herr.append(f"nondeterministic execution of {h!r}: {_canon(res)[:300]} vs "
                                   f"{(err or _canon(res2))[:300]}")
                elif res.get("viol"):
                    for v in res["viol"]:
                        v = dict(v)
                        v["reproduced_twice"] = True
                        st.viol.append(v)
            for h, res in recheck[400:]:
                st.viol.extend(res.get("viol") or [])
            st.levels.append({"depth": depth, "candidates": len(cands), "new_states": len(nxt)})
            st.max_depth = depth
            frontier = nxt
        st.closed = not frontier
    finally:
        if pool is not None:
            pool.close()
            pool.join()
    return st


def fill_report(report, st, extra=None):
    cov = report.coverage
    cov["states"] = cov.get("states", 0) + st.states
    cov["transitions"] = cov.get("transitions", 0) + st.transitions
    cov["traces_validated_against_impl"] = cov.get("traces_validated_against_impl", 0) + st.executions
    cov["api_calls"] = cov.get("api_calls", 0) + st.api_calls
    cov["max_depth"] = max(cov.get("max_depth", 0), st.max_depth)
    cov.setdefault("levels", []).extend(st.levels)
    cov["closure_reached"] = st.closed
    cov["outcome_classes"] = dict(st.cls.most_common(30))
    cov["expected_failures_exercised"] = cov.get("expected_failures_exercised", 0) + st.expected_failures
    cov["determinism_replays"] = {"n": st.replays, "divergent": len([h for h in st.herr if "nondeterministic" in h])}
    cov.setdefault("samples", []).extend(st.samples[:5])
    if extra:
        cov.update(extra)
    report.violations.extend(st.viol)
    report.harness_errors.extend(st.herr)
