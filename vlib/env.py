"""Owned sources of nondeterminism: directory listing order, uuid temp names, thread pools.

Directory listing order is an *explored environment choice*: code under test sees
os.listdir / os.scandir results sorted or reverse-sorted (or in a given permutation).
"""
import contextlib
import os

_real_listdir = os.listdir
_real_scandir = os.scandir
_MODE = [None]


def _order(names, key=lambda x: x):
    mode = _MODE[0]
    if mode is None:
        return names
    if mode == "sorted":
        return sorted(names, key=key)
    if mode == "reversed":
        return sorted(names, key=key, reverse=True)
    if isinstance(mode, (list, tuple)):  # explicit rank: names listed first come first, rest sorted
        rank = {n: i for i, n in enumerate(mode)}
        return sorted(names, key=lambda x: (rank.get(key(x), len(rank)), key(x)))
    raise ValueError(mode)


def _listdir(path="."):
    return _order(_real_listdir(path))


class _ScandirWrapper:
    def __init__(self, path):
        with _real_scandir(path) as it:
            self._entries = _order(list(it), key=lambda e: e.name)
        self._iter = iter(self._entries)

    def __iter__(self):
        return self

    def __next__(self):
        return next(self._iter)

    def close(self):
        pass

    def __enter__(self):
        return self

    def __exit__(self, *a):
        return False


def _scandir(path="."):
    if _MODE[0] is None:
        return _real_scandir(path)
    return _ScandirWrapper(path)


@contextlib.contextmanager
def listing_order(mode):
    """mode: None (native) | 'sorted' | 'reversed' | explicit list of names that come first."""
    old = _MODE[0]
    _MODE[0] = mode
    os.listdir = _listdir
    os.scandir = _scandir
    try:
        yield
    finally:
        _MODE[0] = old
        if old is None:
            os.listdir = _real_listdir
            os.scandir = _real_scandir
