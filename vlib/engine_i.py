"""Engine I: bounded-exhaustive input enumeration, sharded over a fork pool.

`run_items(ctx, report, items, evaluate)` evaluates every item of a finite deterministic
universe.  `evaluate(item) -> Outcome` where Outcome is a dict with optional keys
  cls   : str            outcome class (for the distinct-outcome count)
  viol  : [violation]    see runner
  skip  : str | None     rule that put the item outside the property's domain
  n     : int            number of real-code evaluations this item stands for (default 1)
  nt    : hashable/str   key of a *non-trivial* distinct case (counted in distinct_nontrivial)
Every violation is re-evaluated once more before it is reported; a violation that does
not reproduce is a HARNESS-ERROR (uncaptured nondeterminism), not a finding.
"""
import itertools
import json
import multiprocessing
import os
import signal
import traceback
from collections import Counter

_EVAL = None
_SELFCHECK_EVERY = 97


def _canon_outcome(o):
    return json.dumps({"cls": o.get("cls"), "skip": o.get("skip"),
                       "viol": sorted(json.dumps(v.get("sig"), sort_keys=True) for v in o.get("viol") or [])},
                      sort_keys=True, default=repr)


def raised_inside_signac(exc):
    """'file:function' of the innermost frame if the exception was raised inside signac / synced_collections, else None."""
    if hasattr(exc, "_where_inside_signac"):  # raised in a forked child (engine_t.isolated), judged there
        return exc._where_inside_signac
    tb = exc.__traceback__
    last = None
    while tb is not None:
        last = tb
        tb = tb.tb_next
    if last is None:
        return None
    fn = last.tb_frame.f_code.co_filename
    if "/verif/" in fn:
        return None
    if "/signac/" in fn or "synced_collections" in fn:
        return f"{os.path.basename(fn)}:{last.tb_frame.f_code.co_name}"
    # exceptions raised by the standard library on behalf of signac (os.replace, json, shutil ...): look for the
    # innermost signac frame, provided no harness frame is below it
    tb = exc.__traceback__
    frames = []
    while tb is not None:
        frames.append(tb.tb_frame.f_code)
        tb = tb.tb_next
    for i in range(len(frames) - 1, -1, -1):
        f = frames[i].co_filename
        if "/verif/" in f:
            return None
        if "/signac/" in f or "synced_collections" in f:
            return f"{os.path.basename(f)}:{frames[i].co_name}"
    return None


def _init_worker():
    signal.signal(signal.SIGINT, signal.SIG_IGN)


def _eval_chunk(args):
    idx0, chunk = args
    res = {"n": 0, "items": 0, "cls": Counter(), "skip": Counter(), "viol": [], "nt": set(),
           "herr": [], "replays": 0, "samples": [], "counters": Counter()}
    for k, item in enumerate(chunk):
        try:
            o = _EVAL(item)
        except BaseException as e:  # noqa
            where = raised_inside_signac(e)
            if where is None:  # harness bug: never report as a violation of signac
                res["herr"].append(f"evaluate() raised {type(e).__name__}: {e} on item {item!r}\n"
                                   + traceback.format_exc()[-1500:])
                continue
            # a public API call on an input that is valid on the unchanged tree failed inside signac
            o = {"cls": "public-call-raises", "n": 1, "viol": [{
                "sig": {"kind": "public-call-raises", "exc": type(e).__name__, "where": where},
                "scenario": "setup-or-call", "input": {"item": repr(item)[:2000]}, "expected": "no exception",
                "observed": f"{type(e).__name__}: {e}"[:500],
                "msg": f"a signac call made by the check raised {type(e).__name__}: {e} (in {where}) for item {item!r}"[:1200]}]}
            res["items"] += 1
            res["n"] += 1
            res["cls"][o["cls"]] += 1
            if len(res["viol"]) < 40:
                v = dict(o["viol"][0])
                v["reproduced_twice"] = False
                res["viol"].append(v)
            continue
        res["items"] += 1
        res["n"] += o.get("n", 1)
        res["counters"].update(o.get("counters") or {})
        if o.get("skip"):
            res["skip"][o["skip"]] += 1
        else:
            if o.get("cls") is not None:
                res["cls"][o["cls"]] += 1
            if o.get("nt") is not None:
                nt = o["nt"]
                if isinstance(nt, (list, set, tuple)) and not isinstance(nt, str) and o.get("nt_many"):
                    res["nt"].update(nt)
                else:
                    res["nt"].add(nt)
        if o.get("viol") or (idx0 + k) % _SELFCHECK_EVERY == 0:
            try:
                o2 = _EVAL(item)
            except BaseException as e:
                res["herr"].append(f"re-evaluation raised {type(e).__name__}: {e} on {item!r}")
                continue
            res["replays"] += 1
            if _canon_outcome(o) != _canon_outcome(o2):
                res["herr"].append(f"nondeterministic outcome for item {item!r}: "
                                   f"{_canon_outcome(o)[:400]} vs {_canon_outcome(o2)[:400]}")
                # violations whose signature shows up in BOTH evaluations are reproducible in kind and are still reported
                common = {json.dumps(v.get("sig"), sort_keys=True) for v in o.get("viol") or []} & \
                         {json.dumps(v.get("sig"), sort_keys=True) for v in o2.get("viol") or []}
                o = dict(o, viol=[v for v in o.get("viol") or [] if json.dumps(v.get("sig"), sort_keys=True) in common])
                if not o["viol"]:
                    continue
        for v in o.get("viol") or []:
            v = dict(v)
            v["reproduced_twice"] = True
            if len(res["viol"]) < 40:
                res["viol"].append(v)
            else:
                res["viol_dropped"] = res.get("viol_dropped", 0) + 1
        if len(res["samples"]) < 1 and not o.get("skip") and o.get("sample") is not None:
            res["samples"].append(o["sample"])
    return res


def chunks(it, size):
    it = iter(it)
    idx = 0
    while True:
        c = list(itertools.islice(it, size))
        if not c:
            return
        yield idx, c
        idx += len(c)


class Totals:
    def __init__(self):
        self.n = 0
        self.items = 0
        self.cls = Counter()
        self.skip = Counter()
        self.nt = set()
        self.viol = []
        self.herr = []
        self.replays = 0
        self.samples = []
        self.viol_dropped = 0
        self.counters = Counter()

    def merge(self, r):
        self.counters.update(r.get("counters") or {})
        self.n += r["n"]
        self.items += r["items"]
        self.cls.update(r["cls"])
        self.skip.update(r["skip"])
        self.nt.update(r["nt"])
        self.viol.extend(r["viol"])
        self.herr.extend(r["herr"])
        self.replays += r["replays"]
        self.viol_dropped += r.get("viol_dropped", 0)
        if len(self.samples) < 5:
            self.samples.extend(r["samples"][: 5 - len(self.samples)])


def run_items(ctx, items, evaluate, chunk=64, totals=None, singles=()):
    """Evaluate all items (a finite iterator) with `evaluate` on ctx.nworkers forked workers.  ``singles``: items that are
    whole explorations themselves; each is a work unit of its own, handed out before the chunks of ``items``."""
    global _EVAL
    _EVAL = evaluate
    tot = totals or Totals()
    gen_errors = []

    def guarded(it):
        # the pool consumes the generator in a helper thread: keep the original exception (and traceback)
        try:
            yield from it
        except BaseException as e:  # noqa
            gen_errors.append(e)
    work = chunks(guarded(items), chunk)
    if singles:
        singles = list(singles)
        # index 0 = "re-evaluate for the determinism self-check": only the last (by convention the smallest) single
        work = itertools.chain(((0 if i == len(singles) - 1 else 1, [it]) for i, it in enumerate(singles)), work)
    if ctx.nworkers <= 1:
        for w in work:
            tot.merge(_eval_chunk(w))
        if gen_errors:
            raise gen_errors[0]
        return tot
    mp = multiprocessing.get_context("fork")
    with mp.Pool(ctx.nworkers, initializer=_init_worker) as pool:
        # the seed rotates which worker sees which chunk only through arrival order
        for r in pool.imap_unordered(_eval_chunk, work):
            tot.merge(r)
    if gen_errors:
        raise gen_errors[0]
    return tot


def fill_report(report, tot, rule, extra=None, floor_distinct=2):
    cov = report.coverage
    cov["evaluations"] = cov.get("evaluations", 0) + tot.n
    cov["inputs"] = cov.get("inputs", 0) + tot.items
    cov["distinct_nontrivial"] = len(tot.nt) if tot.nt else len(tot.cls)
    cov["rule"] = rule
    cov["outcome_classes"] = dict(tot.cls.most_common(40))
    cov["skipped"] = dict(tot.skip)
    cov["determinism_replays"] = {"n": tot.replays, "divergent": len([h for h in tot.herr if "nondeterministic" in h])}
    cov["samples"] = tot.samples[:5]
    if tot.viol_dropped:
        cov["violations_not_listed_individually"] = tot.viol_dropped
    if tot.counters:
        cov.update(dict(tot.counters))
    if extra:
        cov.update(extra)
    report.violations.extend(tot.viol)
    report.harness_errors.extend(tot.herr)
    if cov["distinct_nontrivial"] < floor_distinct:
        report.harness_errors.append(
            f"vacuous exploration: only {cov['distinct_nontrivial']} distinct outcomes (< {floor_distinct})")
