"""Reference evaluator for signac's query language: one job at a time, plain Python.

ref_match(filter, sp, doc) decides whether ONE job (its own state point and document)
satisfies a filter given in any accepted mapping spelling (nested / dotted keys,
sp./doc. prefix or none, operator as nested mapping or as key suffix).  It never looks
at other jobs.  Order comparisons Python cannot perform raise IllTyped; such
(filter, corpus) pairs are outside the property's domain.
"""
import math
import operator
import re
from collections.abc import Mapping

MISSING = type("Missing", (), {"__repr__": lambda s: "MISSING"})()

LOGICAL = ("$and", "$or", "$not")
ORDER = {"$gt": operator.gt, "$gte": operator.ge, "$lt": operator.lt, "$lte": operator.le}
OPS = ("$eq", "$ne", "$gt", "$gte", "$lt", "$lte", "$in", "$nin", "$exists", "$regex", "$type", "$near")
TYPES = {"int": int, "float": float, "bool": bool, "str": str, "list": list, "null": type(None)}


class IllTyped(Exception):
    pass


class OutsideGrammar(Exception):
    pass


def _norm(v):
    """lists/tuples -> lists, recursively (JSON normalisation of values)."""
    if isinstance(v, Mapping):
        return {k: _norm(x) for k, x in v.items()}
    if isinstance(v, (list, tuple)):
        return [_norm(x) for x in v]
    return v


def atoms(filter_):
    """Parse a filter into a tree: ('and', [nodes]) | ('or', [...]) | ('not', node) | ('atom', ns, path, op, arg)."""
    if not isinstance(filter_, Mapping):
        raise OutsideGrammar(f"filter must be a mapping: {filter_!r}")
    nodes = []
    for key, value in filter_.items():
        if key in ("$and", "$or"):
            if not isinstance(value, (list, tuple)) or not value:
                raise OutsideGrammar("logical operator needs a non-empty list")
            nodes.append(("and" if key == "$and" else "or", [atoms(x) for x in value]))
        elif key == "$not":
            nodes.append(("not", atoms(value)))
        else:
            parts = key.split(".")
            if parts[0] in ("sp", "doc"):
                ns, parts = parts[0], parts[1:]
            else:
                ns = "sp"
            nodes.extend(_flatten(ns, parts, value))
    return ("and", nodes)


def _flatten(ns, parts, value):
    if parts and parts[-1].startswith("$"):
        op = parts[-1]
        if op not in OPS or any(p.startswith("$") for p in parts[:-1]) or len(parts) < 2:
            raise OutsideGrammar(f"operator placement {parts}")
        if isinstance(value, Mapping):
            raise OutsideGrammar("mapping-valued operator argument")
        return [("atom", ns, tuple(parts[:-1]), op, _norm(value))]
    if isinstance(value, Mapping):
        if not value:
            raise OutsideGrammar("empty-mapping argument")
        out = []
        for k, v in value.items():
            out.extend(_flatten(ns, parts + k.split("."), v))
        return out
    if not parts:
        raise OutsideGrammar("bare namespace with scalar")
    return [("atom", ns, tuple(parts), None, _norm(value))]


def resolve(root, path):
    v = root
    for p in path:
        if isinstance(v, Mapping) and p in v:
            v = v[p]
        else:
            return MISSING
    return _norm(v)


def _cmp_key(v):
    # lists compare as sequences (the index stores them as tuples)
    if isinstance(v, list):
        return tuple(_cmp_key(x) for x in v)
    return v


def eval_atom(ns, path, op, arg, sp, doc):
    root = sp if ns == "sp" else (doc if doc is not None else {})
    v = resolve(root, path)
    if op == "$exists":
        if not isinstance(arg, bool):
            raise OutsideGrammar("$exists needs a bool")
        return (v is not MISSING) == arg
    if v is MISSING:
        return False
    is_map = isinstance(v, Mapping)
    if op is None or op == "$eq":
        return (not is_map) and v == arg
    if op == "$ne":
        return is_map or not (v == arg)
    if op in ORDER:
        if is_map:
            raise IllTyped(f"{op} on a mapping value")
        try:
            return bool(ORDER[op](_cmp_key(v), _cmp_key(arg)))
        except TypeError:
            raise IllTyped(f"{op}: {v!r} vs {arg!r}")
    if op in ("$in", "$nin"):
        if not isinstance(arg, list):
            raise OutsideGrammar("$in/$nin need a list")
        found = (not is_map) and any(v == x for x in arg)
        return found if op == "$in" else not found
    if op == "$regex":
        if not isinstance(arg, str):
            raise OutsideGrammar("$regex needs a string")
        return isinstance(v, str) and re.search(arg, v) is not None
    if op == "$type":
        if arg not in TYPES:
            raise OutsideGrammar("unknown $type")
        return (not is_map) and isinstance(v, TYPES[arg])
    if op == "$near":
        rel, abs_ = 1e-9, 0.0
        x = arg
        if isinstance(arg, list):
            if len(arg) == 1:
                x = arg[0]
            elif len(arg) == 2:
                x, rel = arg
            elif len(arg) == 3:
                x, rel, abs_ = arg
            else:
                raise OutsideGrammar("$near argument length")
        if isinstance(x, bool) or not isinstance(x, (int, float)):
            raise OutsideGrammar("$near argument must be a number")
        if not isinstance(v, (int, float)):
            return False
        return math.isclose(v, float(x), rel_tol=float(rel), abs_tol=float(abs_))
    raise OutsideGrammar(op)


def eval_tree(node, sp, doc):
    kind = node[0]
    if kind == "and":
        return all([eval_tree(n, sp, doc) for n in node[1]])  # no short circuit: surface IllTyped
    if kind == "or":
        return any([eval_tree(n, sp, doc) for n in node[1]])
    if kind == "not":
        return not eval_tree(node[1], sp, doc)
    _, ns, path, op, arg = node
    return eval_atom(ns, path, op, arg, sp, doc)


def ref_match(filter_, sp, doc=None):
    return eval_tree(atoms(filter_), sp, doc)


def all_atoms(node):
    if node[0] in ("and", "or"):
        for n in node[1]:
            yield from all_atoms(n)
    elif node[0] == "not":
        yield from all_atoms(node[1])
    else:
        yield node


def ill_typed(tree, jobs):
    """Eager domain test: ANY ordering atom raises TypeError on ANY job of the corpus."""
    for a in all_atoms(tree):
        if a[3] in ORDER:
            for sp, doc in jobs:
                try:
                    eval_atom(a[1], a[2], a[3], a[4], sp, doc)
                except IllTyped:
                    return True
    return False


def uses_doc(tree):
    return any(a[1] == "doc" for a in all_atoms(tree))
